(* C01: the feature-table operations of Track as one operation alphabet (track.py: createAnalyticalFeature,
   updateAnalyticalFeature, removeAnalyticalFeature, __setitem__, setObsAnalyticalFeature, addListToAF, operate(str)) *)
From Coq Require Import List Ascii String Bool Arith ZArith QArith Lia.
Import ListNotations.
From TL Require Import Model.Str Model.Rpn Model.Table Model.Eval Model.Pipeline.

Definition icol (sz : nat) (i : init) : list val := match i with IScalar v => repeat v sz | IList l => firstn sz l end.

(* updateAnalyticalFeature(name, new_val) *)
Definition update_af (t : track) (n : str) (i : init) : res track :=
  if negb (has_af t n) then Err AFError
  else if (size t =? 0)%nat then Err AFError
  else match lookup (dico t) n with
       | None => Err KeyError                       (* a virtual name passes the guard and fails on the dictionary *)
       | Some _ => set_col t n (icol (size t) i)
       end.

(* setObsAnalyticalFeature(name, k, v), k in range *)
Definition set_obs (t : track) (n : str) (k : nat) (v : val) : res track :=
  if (size t <=? k)%nat then Err IndexError
  else if str_eqb n (s_ "x") then set_col t n (set_nth (xs t) k v)
  else if str_eqb n (s_ "y") then set_col t n (set_nth (ys t) k v)
  else if str_eqb n (s_ "z") then set_col t n (set_nth (zs t) k v)
  else match lookup (dico t) n with
       | None => Err AFError
       | Some i => set_col t n (set_nth (map (fun f => nth i f None) (feats t)) k v)      (* only row k changes: written as the column with entry k replaced *)
       end.

Inductive xop :=
| XCreate (n : str) (i : init)      (* track.createAnalyticalFeature(n, v) *)
| XRemove (n : str)                 (* track.removeAnalyticalFeature(n) *)
| XDelete (n : str)                 (* track[n] = "#DELETE" *)
| XSetCol (n : str) (c : list val)  (* addListToAF(track, n, c) *)
| XUpdate (n : str) (i : init)      (* track.updateAnalyticalFeature(n, v) *)
| XSetItem (n : str) (i : init)     (* track[n] = v *)
| XSetObs (n : str) (k : nat) (v : val)   (* track[n, k] = v *)
| XAddFun (n : str) (c : list val)  (* track.addAnalyticalFeature(f, n) / track[n] = f  with f(track, i) = c[i] *)
| XExpr (s : str).                  (* track.operate(s) *)

Definition xapply (t : track) (o : xop) : res track :=
  match o with
  | XCreate n i => create_af t n i
  | XRemove n | XDelete n => remove_af t n
  | XSetCol n c => set_col t n c
  | XUpdate n i => update_af t n i
  | XSetItem n i => if has_af t n then update_af t n i else create_af t n i
  | XSetObs n k v => set_obs t n k v
  (* __controlName, then createAnalyticalFeature(n) (initial value 0.0) when the name is new, then features[dico[n]] = f(track, i) for
     every i: the column registered for n receives the computed values (a new name: created with them - the intermediate
     all-zero column cannot be observed) *)
  | XAddFun n c => if is_virtual n then Err AFError else if has_af t n then set_col t n c else create_af t n (IList c)
  | XExpr s => do p <- operate_str t s; Ok (fst p)
  end.
(* a call that raises before mutating leaves the track as it was (expressions that raise are outside the alphabet: they can
   leave temporaries behind, the cleanup of operate() being skipped) *)
Definition xstep (t : track) (o : xop) : track := match xapply t o with Ok t' => t' | Err _ => t end.
Definition xerr (t : track) (o : xop) : option err := match xapply t o with Ok _ => None | Err e => Some e end.
