(* Track.toWKT and TrackReader.parseWkt at the level of tokens: the coordinates are the decimal strings produced by str(float);
   that float(str(v)) == v is CPython's contract (shortest round-tripping repr) and is not modelled *)
From Coq Require Import List Ascii String Bool.
From TL Require Import Model.CsvText.
Import ListNotations.
Open Scope string_scope.

(* "LINESTRING(" x " " y "," ... ")" *)
Definition to_wkt (pts : list (string * string)) : string :=
  "LINESTRING(" ++ join "," (map (fun p => fst p ++ " " ++ snd p) pts) ++ ")".

Definition upper_char (c : ascii) : ascii :=
  let n := nat_of_ascii c in if (Nat.leb 97 n && Nat.leb n 122)%bool then ascii_of_nat (n - 32) else c.
Fixpoint upper (s : string) : string := match s with "" => "" | String c r => String (upper_char c) (upper r) end.

Fixpoint rstrip_sp (s : string) : string :=
  match s with "" => "" | String c r => match rstrip_sp r with "" => if Ascii.eqb c " " then "" else String c "" | r' => String c r' end end.
Definition strip (s : string) : string := rstrip_sp (lstrip s).

(* wkt.upper(); wkt.split("(")[1].split(")")[0].split(","); for each: s.strip().split(" ") -> (sl[0], sl[1]) *)
Definition parse_wkt (w : string) : option (list (string * string)) :=
  let u := upper w in
  match split "(" u with
  | _ :: body :: _ =>
      match split ")" body with
      | inner :: _ =>
          let items := split "," inner in
          let pair (s : string) := match split " " (strip s) with x :: y :: _ => Some (x, y) | _ => None end in
          fold_right (fun s acc => match pair s, acc with Some p, Some l => Some (p :: l) | _, _ => None end) (Some []) items
      | [] => None
      end
  | _ => None
  end.

Eval vm_compute in parse_wkt (to_wkt [("1.5", "-2e-05"); ("3.0", "4.25")]).
