(* operators.Filter.execute (operators.py:1456-1516) over Q, NaN = None *)
From Coq Require Import List Arith QArith Bool Lia.
Import ListNotations.
Open Scope Q_scope.

Definition val := option Q.

(* inner loop over j in range(N) for output index i: accumulates (temp[i], norm) *)
Fixpoint window (x : list val) (k : list Q) (D i j : nat) (acc : Q * Q) : Q * Q :=
  match k with
  | [] => acc
  | kj :: r =>
    let acc' :=
      if (i + D <? j)%nat then acc                                  (* i - j + D < 0 *)
      else if (length x <=? i + D - j)%nat then acc                 (* i - j + D >= size *)
      else match nth (i + D - j) x None with
           | None => acc                                            (* NaN sample skipped *)
           | Some v => (fst acc + v * kj, snd acc + kj)
           end in
    window x r D i (S j) acc'
  end.

(* EmptyWin: no sample of the window is inside the track and not NaN (norm = 0); the code writes NaN there
   (before the repair recorded under C15 it raised ZeroDivisionError) *)
Inductive res := Val (q : Q) | EmptyWin.

Definition filter_at (x : list val) (k : list Q) (i : nat) : res :=
  let D := (length k / 2)%nat in
  let '(t, norm) := window x k D i 0 (0, 0) in
  if Qeq_bool norm 0 then EmptyWin else Val (t / norm).

(* boundary copy when the kernel does not filter boundaries *)
Definition filter_out (boundary : bool) (x : list val) (k : list Q) (i : nat) : option res :=
  let D := (length k / 2)%nat in
  if negb boundary && ((i <? D)%nat || (length x - D <=? i)%nat)
  then match nth i x None with Some v => Some (Val v) | None => None end   (* copies the input, NaN included *)
  else Some (filter_at x k i).

(* ---- Kernel.toSlidingWindow (kernel.py): size = 2*int(support)+1, sample i is taken at x = int(support) - i,
   masked by |x| <= support (always true for these integer abscissas), then normalised by the sum ---- *)
Definition window_samples (f : Z -> Q) (m : nat) : list Q :=
  map (fun i => f (Z.of_nat m - Z.of_nat i)%Z) (seq 0 (2 * m + 1)).
Definition qsum (l : list Q) : Q := fold_right Qplus 0 l.
Definition sliding_window (f : Z -> Q) (m : nat) : list Q :=
  let v := window_samples f m in map (fun x => x / qsum v) v.
