(* Spike: segmentation.optimalPartition (interval DP) over Q *)
From Coq Require Import List Arith QArith Bool Lia Lqa.
Import ListNotations.
Open Scope Q_scope.

Definition tab (A : Type) := nat -> nat -> A.
Definition upd2 {A} (f : tab A) (i j : nat) (v : A) : tab A :=
  fun a b => if (a =? i)%nat && (b =? j)%nat then v else f a b.

Definition Qltb (x y : Q) : bool := if Qlt_le_dec x y then true else false.

(* mode: true = minimise (as intended), false = maximise *)
Definition better (minimise : bool) (val cur : Q) : bool :=
  if minimise then Qltb val cur else Qltb cur val.

(* inner loop over k in range(i+1, j) *)
Definition inner_step (minimise : bool) (i j : nat) (DM : tab Q * tab (option nat)) (k : nat) :=
  let '(D, M) := DM in
  let val := D i k + D k j in
  if better minimise val (D i j) then (upd2 D i j val, upd2 M i j (Some k)) else (D, M).

Definition inner (minimise : bool) (i j : nat) DM := fold_left (inner_step minimise i j) (seq (S i) (j - S i)) DM.

(* for i in range(0, N - diag): j = i + diag *)
Definition diag_loop (minimise : bool) (N diag : nat) DM :=
  fold_left (fun DM i => inner minimise i (i + diag) DM) (seq 0 (N - diag)) DM.

(* for diag in range(2, N) *)
Definition dp (minimise : bool) (N : nat) (cost : tab Q) : tab Q * tab (option nat) :=
  fold_left (fun DM diag => diag_loop minimise N diag DM) (seq 2 (N - 2)) (cost, fun _ _ => None).

(* backtracking(B, i, j) ; None models B[i,j] < 0 *)
Fixpoint backtracking (fuel : nat) (M : tab (option nat)) (i j : nat) : list nat :=
  match fuel with
  | O => [i]
  | S f =>
    match M i j with
    | None => [i]
    | Some k => if (j - i <=? 1)%nat then [i] else backtracking f M i k ++ backtracking f M k j
    end
  end.

Definition optimal_partition (minimise : bool) (N : nat) (cost : tab Q) : list nat :=
  let (D, M) := dp minimise N cost in (backtracking N M 0%nat (N - 1)%nat ++ [(N - 1)%nat]).

Fixpoint chain_cost (cost : tab Q) (l : list nat) : Q :=
  match l with
  | a :: (b :: _) as r => cost a b + chain_cost cost r
  | _ => 0
  end.

Definition c1 : tab Q := fun i j => let d := if (i <? j)%nat then (j - i)%nat else (i - j)%nat in
  match d with 1%nat => 3 | 2%nat => 4 | 3%nat => 9 | _ => 20 end.
Eval vm_compute in (optimal_partition true 5 c1, fst (dp true 5 c1) 0%nat 4%nat, optimal_partition false 5 c1, fst (dp false 5 c1) 0%nat 4%nat).
