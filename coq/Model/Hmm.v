(* Spike: HMM.estimate (dynamics.py:702-846), costs in Q *)
From Coq Require Import List Arith QArith Bool Lia Lqa.
Import ListNotations.
Open Scope Q_scope.

Definition Qltb (x y : Q) : bool := if Qlt_le_dec x y then true else false.

(* one epoch: pcost l = -Plog(state l, obs k); qcost m l = -Qlog(state m of previous epoch, state l) *)
Record epoch := { nstates : nat; pcost : nat -> Q; qcost : nat -> nat -> Q }.

Definition BIG : Q := 1000000000000000000000000000000.  (* stands for 1e300 *)

(* inner loop over m in range(len(prev)) with strict < from best_val = 1e300, best_ant = 0 *)
Fixpoint best_pred (prev : list Q) (q : nat -> Q) (m : nat) (best_val : Q) (best_ant : nat) : Q * nat :=
  match prev with
  | [] => (best_val, best_ant)
  | v :: r => let val := q m + v in
              if Qltb val best_val then best_pred r q (S m) val m else best_pred r q (S m) best_val best_ant
  end.

Definition step_col (prev : list Q) (e : epoch) : list (Q * nat) :=
  map (fun l => let '(bv, ba) := best_pred prev (fun m => qcost e m l) 0 BIG 0 in (bv + pcost e l, ba))
      (seq 0 (nstates e)).

(* TAB_VAL / TAB_MRK columns, most recent first *)
Fixpoint forward (prev : list Q) (es : list epoch) (acc : list (list (Q * nat))) : list (list (Q * nat)) :=
  match es with
  | [] => acc
  | e :: r => let col := step_col prev e in forward (map fst col) r (col :: acc)
  end.

Fixpoint argmin_from (l : list Q) (i : nat) (best : Q) (bi : nat) : nat :=
  match l with [] => bi | v :: r => if Qltb v best then argmin_from r (S i) v i else argmin_from r (S i) best bi end.
Definition argmin (l : list Q) : nat := match l with [] => 0%nat | v :: r => argmin_from r 1 v 0 end.

(* backward: cols most recent first *)
Fixpoint backward (cols : list (list (Q * nat))) (idk : nat) : list nat :=
  match cols with
  | [] => []
  | col :: r => idk :: backward r (snd (nth idk col (0, 0%nat)))
  end.

Definition estimate (e0 : epoch) (es : list epoch) : list nat * Q :=
  let col0 := map (fun l => (pcost e0 l, 0%nat)) (seq 0 (nstates e0)) in
  let cols := forward (map fst col0) es [col0] in
  match cols with
  | [] => ([], 0)
  | last :: _ => let idk := argmin (map fst last) in (rev (backward cols idk), fst (nth idk last (0, 0%nat)))
  end.

(* specification side: cost of an index sequence *)
Fixpoint seq_cost (prev : nat) (es : list epoch) (s : list nat) : Q :=
  match es, s with
  | e :: r, l :: s' => qcost e prev l + pcost e l + seq_cost l r s'
  | _, _ => 0
  end.
Definition total_cost (e0 : epoch) (es : list epoch) (s : list nat) : Q :=
  match s with l0 :: s' => pcost e0 l0 + seq_cost l0 es s' | [] => 0 end.

Definition ex_e0 := {| nstates := 2; pcost := fun l => if (l =? 0)%nat then 1 else 2; qcost := fun _ _ => 0 |}.
Definition ex_e1 := {| nstates := 3; pcost := fun l => inject_Z (Z.of_nat l); qcost := fun m l => if (m =? l)%nat then 0 else 5 |}.
Definition ex_e2 := {| nstates := 2; pcost := fun l => if (l =? 0)%nat then 4 else 0; qcost := fun m l => inject_Z (Z.of_nat (m + l)) |}.
Eval vm_compute in estimate ex_e0 [ex_e1; ex_e2].
Eval vm_compute in total_cost ex_e0 [ex_e1; ex_e2] [0;0;1]%nat.
