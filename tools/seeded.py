#!/usr/bin/env python3
"""Seeded-change bookkeeping.

  seeded.py add <prop> <worktree>     save patch.diff + demo + meta.json under /verif/seeded/<prop>-<n>/ after confirming that the
                                      demo fails with the change and passes without it and that the pinned suite still passes with it
  seeded.py run <name> [--tier quick] apply the patch to /repo, run ./check <prop>, undo the patch, record the verdict in meta.json
  seeded.py scratch <name> [tier]     same verdict on a scratch copy of /repo (TL_ROOT / VERIF_OUT): /repo and /verif/evidence untouched
  seeded.py runall                    run every seeded change
"""
import sys, os, json, subprocess, shutil, glob, time

V = '/verif'
ENV = dict(os.environ, PYTHONHASHSEED='0', MPLBACKEND='Agg')


def sh(cmd, cwd=None, env=None, timeout=3000):
    p = subprocess.run(cmd, shell=True, cwd=cwd, env=env or ENV, capture_output=True, text=True, timeout=timeout)
    return p.returncode, (p.stdout + p.stderr)


def add(prop, wt):
    n = 1
    while os.path.exists('%s/seeded/%s-%d' % (V, prop, n)):
        n += 1
    d = '%s/seeded/%s-%d' % (V, prop, n)
    rc, diff = sh('git diff -- tracklib', cwd=wt)
    assert diff.strip(), 'no diff in ' + wt
    os.makedirs(d)
    open(d + '/patch.diff', 'w').write(diff)
    demo = '%s/demo_%s.py' % (wt, prop)
    shutil.copy(demo, d + '/demo.py')
    if os.path.exists(wt + '/MUTATION.md'):
        shutil.copy(wt + '/MUTATION.md', d + '/MUTATION.md')
    env = dict(ENV, PYTHONPATH=wt)
    rc_with, out_with = sh('/venv/bin/python -W ignore demo_%s.py' % prop, cwd=wt, env=env)
    sh('git stash', cwd=wt)
    rc_without, out_without = sh('/venv/bin/python -W ignore demo_%s.py' % prop, cwd=wt, env=env)
    sh('git stash pop', cwd=wt)
    rc_suite, out_suite = sh('/verif/tools/baseline.sh %s' % wt)
    meta = {'property': prop, 'name': os.path.basename(d), 'base_commit': sh('git rev-parse --short HEAD', cwd=wt)[1].strip(),
            'demo_exit_with_change': rc_with, 'demo_exit_without_change': rc_without,
            'demo_output_with_change': out_with[-600:], 'suite_with_change': out_suite.strip()[-200:], 'suite_ok': rc_suite == 0,
            'needs': '', 'ran': ['demo with / without the change in the scratch worktree', '/verif/tools/baseline.sh <worktree> (pinned suite, stable-pass list of BASELINE.json)']}
    json.dump(meta, open(d + '/meta.json', 'w'), indent=1)
    print(d, 'demo with=%d without=%d suite_ok=%s' % (rc_with, rc_without, rc_suite == 0))
    return d


def run_scratch(name, tier='quick'):
    """same verdict as run(), but on a scratch copy of /repo's working tree (TL_ROOT / VERIF_OUT), so that /repo, /verif/evidence and
    /verif/replays are left alone and several changes can be evaluated at once; the scratch copy is removed afterwards"""
    d = '%s/seeded/%s' % (V, name)
    meta = json.load(open(d + '/meta.json'))
    prop = meta['property']
    root = '/tmp/seedrun/%s' % name
    shutil.rmtree(root, ignore_errors=True); os.makedirs(root + '/repo')
    sh('rsync -a --exclude .git --exclude __pycache__ /repo/ %s/repo/' % root)
    rc, out = sh('patch -p1 -s < %s/patch.diff' % d, cwd=root + '/repo')
    assert rc == 0, 'patch does not apply: ' + out
    try:
        t0 = time.time()
        rc, out = sh('./check %s --tier %s' % (prop, tier), cwd=V, env=dict(ENV, TL_ROOT=root + '/repo', VERIF_OUT=root + '/out'), timeout=6000)
        lines = [l for l in out.splitlines() if l.startswith('VIOLATION') or l.startswith(prop + ' ')]
        replay = None
        for l in lines:
            if l.startswith('VIOLATION') and 'replay=' in l:
                replay = l.split('replay=')[1].split()[0]
        rdoc = json.load(open(replay)) if replay and os.path.exists(replay) else {}
        reason = rdoc.get('reason')
        if rdoc.get('kind') == 'concrete' and rdoc.get('cases'):
            # the (shrunk) input that exposed this change joins the corpus of its property: it runs first in every later check
            os.makedirs('%s/corpus/%s' % (V, prop), exist_ok=True)
            cf = '%s/corpus/%s/%s.json' % (V, prop, name)
            json.dump({'from': 'seeded change %s' % name, 'cases': [{'stream': c['stream'], 'case': c['case']} for c in rdoc['cases'][:2]]}, open(cf, 'w'), indent=1)
            # a corpus input must pass on the unchanged tree (a shrunk case can leave the generator's invariants): replay it there, drop it otherwise
            rc2, out2 = sh('./check %s --replay %s' % (prop, cf), cwd=V, env=dict(ENV, TL_ROOT='/repo', VERIF_OUT=root + '/clean'), timeout=3000)
            if rc2 != 0:
                os.remove(cf)
                meta['corpus'] = 'rejected: the shrunk input does not pass on the unchanged tree: ' + out2[-300:]
        meta.setdefault('checks', {})[tier] = {'exit': rc, 'lines': lines, 'reason': reason, 'wall_s': round(time.time() - t0, 1),
                                                'caught': rc == 1 and any(l.startswith('VIOLATION') for l in lines),
                                                'concrete': bool(lines) and not any('no-failing-input-found' in l for l in lines if l.startswith('VIOLATION')),
                                                'how': 'scratch copy of /repo with the patch applied (TL_ROOT)'}
    finally:
        shutil.rmtree(root, ignore_errors=True)
    json.dump(meta, open(d + '/meta.json', 'w'), indent=1)
    print(name, json.dumps(meta['checks'][tier])[:400])


def run(name, tier='quick'):
    d = '%s/seeded/%s' % (V, name)
    meta = json.load(open(d + '/meta.json'))
    prop = meta['property']
    rc, out = sh('git -C /repo status --porcelain')
    assert not out.strip(), '/repo is not clean: ' + out
    rc, out = sh('git -C /repo apply %s/patch.diff' % d)
    if rc:
        rc, out = sh('git -C /repo apply --3way %s/patch.diff' % d)
    assert rc == 0, 'patch does not apply: ' + out
    try:
        t0 = time.time()
        rc, out = sh('./check %s --tier %s' % (prop, tier), cwd=V, timeout=6000)
        lines = [l for l in out.splitlines() if l.startswith('VIOLATION') or l.startswith(prop + ' ')]
        replay = None
        for l in lines:
            if l.startswith('VIOLATION') and 'replay=' in l:
                replay = l.split('replay=')[1].split()[0]
        reason = None
        if replay and os.path.exists(replay):
            reason = json.load(open(replay)).get('reason')
        meta.setdefault('checks', {})[tier] = {'exit': rc, 'lines': lines, 'reason': reason, 'wall_s': round(time.time() - t0, 1),
                                                'caught': rc == 1 and any(l.startswith('VIOLATION') for l in lines),
                                                'concrete': bool(lines) and not any('no-failing-input-found' in l for l in lines if l.startswith('VIOLATION'))}
    finally:
        sh('git -C /repo checkout -- .')
        sh('git -C /repo stash drop')
    json.dump(meta, open(d + '/meta.json', 'w'), indent=1)
    print(name, json.dumps(meta['checks'][tier])[:400])


if __name__ == '__main__':
    if sys.argv[1] == 'add':
        add(sys.argv[2], sys.argv[3])
    elif sys.argv[1] == 'run':
        run(sys.argv[2], sys.argv[4] if len(sys.argv) > 4 else 'quick')
    elif sys.argv[1] == 'scratch':
        run_scratch(sys.argv[2], sys.argv[3] if len(sys.argv) > 3 else 'quick')
    elif sys.argv[1] == 'runall':
        for d in sorted(glob.glob(V + '/seeded/*/meta.json')):
            run(os.path.basename(os.path.dirname(d)), sys.argv[2] if len(sys.argv) > 2 else 'quick')
