#!/usr/bin/env python3
"""Regenerates /verif/MANIFEST.json from tools/claims.json (one entry per property built so far)."""
import json, os
V = os.path.dirname(os.path.dirname(os.path.abspath(__file__)))
claims = json.load(open(os.path.join(V, 'tools', 'claims.json')))
props = [json.loads(l) for l in open(os.path.join(V, 'properties.jsonl'))]
checks = []; na = []
for p in props:
    c = claims.get(p['id'])
    if c is None or c.get('not_applicable'):
        na.append({'property_id': p['id'], 'reason': (c or {}).get('not_applicable', 'check not built yet in this session (model and theorems planned in DESIGN.md section 7)')})
        continue
    checks.append({
        'property_id': p['id'],
        'quick_cmd': './check %s --tier quick' % p['id'],
        'thorough_cmd': './check %s --tier thorough' % p['id'],
        'evidence_file': '/verif/evidence/%s.json' % p['id'],
        'replay_cmd_template': './check %s --replay {path}' % p['id'],
        'engine': 'coq-proof+correspondence',
        'level_claimed': {'category': 'proof', 'text': c['text'], 'design_ref': 'DESIGN.md section 7, %s' % p['id']},
        'level_note': c['note'],
        'technique': c['technique']})
man = {
    'version': 1,
    'setup_cmd': 'cd /verif/coq && coq_makefile -f _CoqProject -o Makefile && timeout 3400 make -j16',
    'hooks': {'guard': 'TRACKLIB_VERIF', 'enable': 'no source hooks are needed: every observable is reachable through public attributes; checks export TRACKLIB_VERIF=1 and PYTHONPATH=/repo',
              'baseline_off_cmd': 'cd /repo && /venv/bin/python -m pytest -ra -q -p no:cacheprovider --timeout=900 --continue-on-collection-errors',
              'source_commits': [], 'add_only': True},
    'engines': [{'name': 'coq-proof+correspondence', 'path': '/verif/coq + /verif/harness',
                 'serves_properties': [c['property_id'] for c in checks],
                 'kind_free_text': 'Coq 8.16 theorems about hand-written executable Gallina models (coq/Model, coq/Proofs, coq/Props); models tied to /repo on every run by a correspondence check: generated cases + implementation outputs are written to cases_*.v and the models are evaluated by vm_compute inside coqc; independent Python oracles search for a concrete failing input when the tie or a proof breaks'}],
    'checks': checks,
    'not_applicable': na,
    'notes': 'See DESIGN.md. known_findings.json lists genuine defects recorded or repaired; tools/mkmanifest.py regenerates this file from tools/claims.json.'}
json.dump(man, open(os.path.join(V, 'MANIFEST.json'), 'w'), indent=1)
print(len(checks), 'checks,', len(na), 'not applicable')
