#!/bin/bash
# runs the repository's pinned suite on /repo (or $1) and checks every stable-pass test of BASELINE.json still passes
R=${1:-/repo}
out=$(mktemp /tmp/junit.XXXXXX.xml)
cd "$R" && env -u TRACKLIB_VERIF /venv/bin/python -m pytest -ra -q -p no:cacheprovider --timeout=900 --continue-on-collection-errors --junitxml=$out > /tmp/baseline.log 2>&1
python3 - "$out" <<'PY'
import sys, json, xml.etree.ElementTree as ET
base = json.load(open('/root/.vp/BASELINE.json'))
ok = set()
for tc in ET.parse(sys.argv[1]).getroot().iter('testcase'):
    if not any(c.tag in ('failure', 'error', 'skipped') for c in tc):
        ok.add(tc.get('classname') + '::' + tc.get('name'))
missing = [t for t in base['stable_pass'] if t not in ok]
print('passed', len(ok), 'stable-pass missing', len(missing))
for t in missing: print('  MISSING', t)
sys.exit(1 if missing else 0)
PY
rc=$?
rm -f $out
exit $rc
