"""models regenerated from /repo's current source on every run, and the proofs that they are the hand-written models (second tie of C16 / C20; C03 has its own in props/C03.py)"""
import os, shutil, subprocess, tempfile


def geometry_generated_model():
    """distance_to_segment, cartesienne, projection_droite, proj_segment and proj_polyligne of tracklib/util/geometry.py are TRANSLATED (harness/py2coq_num.py, fail-closed) to Gallina over
    the generic number structure and coq/GenProofs/GeomGen_eq.v proves, for the text generated now, that they are the functions of Model/Geom.v / Model/SimplifyG.v for every
    number structure, and restates two theorems for them"""
    from core import TL_ROOT, COQ_DIR
    import py2coq_num
    res = {'scope': 'util/geometry.py: distance_to_segment, cartesienne, projection_droite, proj_segment, operation by operation over Num T (so for the reals of the theorems and for the binary64 instance), '
                    'and proj_polyligne (its loop: a body function on the loop-carried variables applied len(Xp) - 1 times, its float literals compared with the model\'s) and triangle_area (Visvalingam\'s effective area); '
                    'the callers in simplification.py / mapping.py / the Track methods are tied by correspondence only',
           'proof': 'coq/GenProofs/GeomGen_eq.v: gen_distance_to_segment_eq, gen_proj_segment_eq (by conversion, for every Num T); gen_proj_polyligne_eq (induction over the vertices, for every Num T, '
                    'under the hypothesis that every leg distance is below the sentinel 1e309), gen_proj_polyligne_literals; gen_triangle_area_eq (the generated expression at the rationals is the model\'s area3, by conversion), gen_triangle_area_real, gen_triangle_area_literals; restated: gen_distance_to_segment_nearest, gen_proj_segment_sound, gen_proj_polyligne_nearest'}
    try:
        text = py2coq_num.translate_geometry(os.path.join(TL_ROOT, 'tracklib', 'util', 'geometry.py'))
    except (py2coq_num.Untranslatable, SyntaxError) as e:
        return dict(res, ok=False, what='the source is outside the translated subset', tail=str(e))
    d = tempfile.mkdtemp(prefix='tlgen_geom_')
    try:
        open(os.path.join(d, 'GeomGen.v'), 'w').write(text)
        shutil.copy(os.path.join(COQ_DIR, 'GenProofs', 'GeomGen_eq.v'), d)
        for f in ('GeomGen.v', 'GeomGen_eq.v'):
            p = subprocess.run('timeout 600 coqc -Q %s TL -Q . TLGen %s' % (COQ_DIR, f), shell=True, cwd=d, capture_output=True, text=True)
            if p.returncode != 0:
                return dict(res, ok=False, what='%s no longer checks against the generated text' % ('the generated file' if f == 'GeomGen.v' else 'the equivalence proof'), tail=(p.stdout + p.stderr)[-800:])
        out = p.stdout + p.stderr
        import re
        axioms = sorted(set(re.findall(r'^([A-Za-z_][A-Za-z0-9_\.\']*)\s*:', out, re.M)) - {'Axioms'})
        return dict(res, ok=True, what='checked', tail='', axioms_of_restated_theorems=axioms, generated_chars=len(text))
    finally:
        shutil.rmtree(d, ignore_errors=True)
