"""A small, fail-closed translator from a subset of Python (as used by ObsTime.isLeapYear / readUnixTime / toAbsTime) to Gallina.

It reads the SOURCE of the functions with `ast` on every run and writes a Coq file; a hand-written proof file then shows that the
generated functions are the functions of the hand-written model the theorems are about.  Anything the translator does not
recognise raises Untranslatable: the tie then no longer checks (it is never papered over).

Domain of the translation (stated, not hidden): numbers are integers (the whole-second instants of the theorems), so
  (int)(a / b)  is  Z.quot a b,   (int)(e) is e,   `x / 1000.0` is only accepted as the millisecond term of toAbsTime and kept apart.
A `while True:` loop becomes a Fixpoint on fuel (fuel is a parameter of the generated function; the theorems supply enough and exclude
the out-of-fuel case), `for i in range(..)` a Fixpoint on the number of iterations; `break` returns the loop state.
"""
import ast


class Untranslatable(Exception):
    pass


FIELDS = {'year': 'year', 'month': 'month', 'day': 'day', 'hour': 'hour', 'min': 'minute', 'sec': 'sec', 'ms': 'ms'}


def V(name):
    return 'v_' + name


class Fn:
    """translation of one function body"""

    def __init__(self, tr, name, node, self_param=None):
        self.tr = tr; self.name = name; self.node = node
        self.aux = []            # top-level Fixpoints generated for the loops (text)
        self.nloop = 0
        self.self_param = self_param
        self.result_obj = None   # name of the local that holds the ObsTime being built
        self.frac = None         # the millisecond term of toAbsTime, kept apart
        self.uses_fuel = False
        self.xsig = '(t : date) ' if self_param else ''      # the object the method is called on is a parameter of its loops too
        self.xarg = 't ' if self_param else ''

    # ---------------------------------------------------------------- expressions
    def E(self, n, scope):
        if isinstance(n, ast.Constant):
            if isinstance(n.value, bool) or not isinstance(n.value, int):
                raise Untranslatable('constant %r' % (n.value,))
            return str(n.value) if n.value >= 0 else '(%d)' % n.value
        if isinstance(n, ast.Name):
            if n.id not in scope:
                raise Untranslatable('variable %s is not defined on every path at line %d' % (n.id, n.lineno))
            return V(n.id)
        if isinstance(n, ast.Attribute) and isinstance(n.value, ast.Name):
            o, a = n.value.id, n.attr
            if o == self.tr.cls and a in self.tr.consts:
                return str(self.tr.consts[a])
            if o == self.self_param and a in FIELDS:
                return '(%s t)' % FIELDS[a]
            if o == self.result_obj and a in FIELDS:
                if 'time.' + a not in scope:
                    raise Untranslatable('field %s read before it is set (line %d)' % (a, n.lineno))
                return V('time_' + a)
            raise Untranslatable('attribute %s.%s (line %d)' % (o, a, n.lineno))
        if isinstance(n, ast.BinOp):
            a, b = self.E(n.left, scope), self.E(n.right, scope)
            if isinstance(n.op, ast.Add):
                return '(%s + %s)' % (a, b)
            if isinstance(n.op, ast.Sub):
                return '(%s - %s)' % (a, b)
            if isinstance(n.op, ast.Mult):
                return '(%s * %s)' % (a, b)
            if isinstance(n.op, ast.Mod):
                return '(%s mod %s)' % (a, b)
            raise Untranslatable('operator %s outside int(..) (line %d)' % (type(n.op).__name__, n.lineno))
        if isinstance(n, ast.Call):
            f = n.func
            if isinstance(f, ast.Name) and f.id == 'int' and len(n.args) == 1 and not n.keywords:
                a = n.args[0]
                if isinstance(a, ast.BinOp) and isinstance(a.op, ast.Div):
                    return '(Z.quot %s %s)' % (self.E(a.left, scope), self.E(a.right, scope))
                return self.E(a, scope)
            if isinstance(f, ast.Attribute) and isinstance(f.value, ast.Name) and f.value.id == self.tr.cls and f.attr in self.tr.bool_fns and len(n.args) == 1 and not n.keywords:
                raise Untranslatable('boolean function used as a number (line %d)' % n.lineno)
            raise Untranslatable('call %s (line %d)' % (ast.dump(f)[:80], n.lineno))
        if isinstance(n, ast.Subscript):
            v = n.value
            if isinstance(v, ast.Attribute) and isinstance(v.value, ast.Name) and v.value.id == self.tr.cls and v.attr in self.tr.lists:
                return '(nth (Z.to_nat %s) gen_%s 0)' % (self.E(n.slice, scope), v.attr.strip('_'))
            raise Untranslatable('subscript (line %d)' % n.lineno)
        raise Untranslatable('expression %s (line %d)' % (type(n).__name__, getattr(n, 'lineno', 0)))

    def B(self, n, scope):
        if isinstance(n, ast.BoolOp):
            op = ' && ' if isinstance(n.op, ast.And) else ' || '
            return '(' + op.join(self.B(v, scope) for v in n.values) + ')'
        if isinstance(n, ast.UnaryOp) and isinstance(n.op, ast.Not):
            return '(negb %s)' % self.B(n.operand, scope)
        if isinstance(n, ast.Compare) and len(n.ops) == 1:
            a, b = self.E(n.left, scope), self.E(n.comparators[0], scope)
            op = n.ops[0]
            if isinstance(op, ast.Eq):
                return '(%s =? %s)' % (a, b)
            if isinstance(op, ast.NotEq):
                return '(negb (%s =? %s))' % (a, b)
            if isinstance(op, ast.Lt):
                return '(%s <? %s)' % (a, b)
            if isinstance(op, ast.LtE):
                return '(%s <=? %s)' % (a, b)
            if isinstance(op, ast.Gt):
                return '(%s <? %s)' % (b, a)
            if isinstance(op, ast.GtE):
                return '(%s <=? %s)' % (b, a)
            raise Untranslatable('comparison %s' % type(op).__name__)
        if isinstance(n, ast.Call):
            f = n.func
            if isinstance(f, ast.Attribute) and isinstance(f.value, ast.Name) and f.value.id == self.tr.cls and f.attr in self.tr.bool_fns and len(n.args) == 1 and not n.keywords:
                return '(gen_%s %s)' % (f.attr, self.E(n.args[0], scope))
        raise Untranslatable('condition %s (line %d)' % (type(n).__name__, getattr(n, 'lineno', 0)))

    # ---------------------------------------------------------------- statements
    def target(self, t):
        """name of the variable a statement assigns (local name, or a field of the object being built)"""
        if isinstance(t, ast.Name):
            return t.id
        if isinstance(t, ast.Attribute) and isinstance(t.value, ast.Name) and t.value.id == self.result_obj and t.attr in FIELDS:
            return 'time.' + t.attr
        raise Untranslatable('assignment target (line %d)' % t.lineno)

    def assigned(self, stmts):
        out = []
        for s in stmts:
            if isinstance(s, ast.Assign) and len(s.targets) == 1:
                out.append(self.target(s.targets[0]))
            elif isinstance(s, ast.AugAssign):
                out.append(self.target(s.target))
            elif isinstance(s, ast.If):
                out += self.assigned(s.body) + self.assigned(s.orelse)
            elif isinstance(s, (ast.For, ast.While)):
                out += self.assigned(s.body)
        return out

    @staticmethod
    def cv(name):
        return V(name.replace('.', '_'))

    def tup(self, names):
        if not names:
            return 'tt'
        return '(' + ', '.join(self.cv(n) for n in names) + ')' if len(names) > 1 else self.cv(names[0])

    def pat(self, names):
        if not names:
            return "_"
        return "'(" + ', '.join(self.cv(n) for n in names) + ')' if len(names) > 1 else self.cv(names[0])

    def block(self, stmts, scope, cont, loop=None):
        """Coq text for `stmts` followed by cont(scope'); scope is the ordered list of defined variables.
        loop = (state names, text at normal end of an iteration) when inside a loop body: `break` yields the state tuple."""
        if not stmts:
            return cont(scope)
        s, rest = stmts[0], stmts[1:]
        nxt = lambda sc: self.block(rest, sc, cont, loop)
        if isinstance(s, ast.Expr) and isinstance(s.value, ast.Constant) and isinstance(s.value.value, str):
            return nxt(scope)                                   # docstring / commented-out code
        if isinstance(s, ast.Assign) and len(s.targets) == 1:
            if isinstance(s.value, ast.Call) and isinstance(s.value.func, ast.Name) and s.value.func.id == self.tr.cls and not s.value.args and not s.value.keywords \
                    and isinstance(s.targets[0], ast.Name):
                if self.result_obj is not None:
                    raise Untranslatable('two result objects')
                self.result_obj = s.targets[0].id
                return nxt(scope)
            t = self.target(s.targets[0])
            return 'let %s := %s in\n  %s' % (self.cv(t), self.E(s.value, scope), nxt(scope + [t] if t not in scope else scope))
        if isinstance(s, ast.AugAssign):
            t = self.target(s.target)
            if t not in scope:
                raise Untranslatable('%s updated before it is defined (line %d)' % (t, s.lineno))
            # the millisecond term of toAbsTime: seconds += self.ms / 1000.0
            if isinstance(s.op, ast.Add) and isinstance(s.value, ast.BinOp) and isinstance(s.value.op, ast.Div) and isinstance(s.value.right, ast.Constant) \
                    and isinstance(s.value.right.value, float) and s.value.right.value == 1000.0 and isinstance(s.value.left, ast.Attribute) \
                    and isinstance(s.value.left.value, ast.Name) and s.value.left.value.id == self.self_param and s.value.left.attr == 'ms' and loop is None and self.frac is None:
                self.frac = ('(ms t)', 1000, t)
                return nxt(scope)
            op = {ast.Add: '+', ast.Sub: '-', ast.Mult: '*'}.get(type(s.op))
            if op is None:
                raise Untranslatable('augmented assignment %s (line %d)' % (type(s.op).__name__, s.lineno))
            return 'let %s := (%s %s %s) in\n  %s' % (self.cv(t), self.cv(t), op, self.E(s.value, scope), nxt(scope))
        if isinstance(s, ast.If):
            if s.orelse:
                raise Untranslatable('else branch (line %d)' % s.lineno)
            if len(s.body) == 1 and isinstance(s.body[0], ast.Break):
                if loop is None:
                    raise Untranslatable('break outside a loop')
                return 'if %s then %s else\n  %s' % (self.B(s.test, scope), self.tup(loop[0]), nxt(scope))
            vs = []
            for v in self.assigned(s.body):
                if v not in scope:
                    raise Untranslatable('%s is defined only under a condition (line %d)' % (v, s.lineno))
                if v not in vs:
                    vs.append(v)
            inner = self.block(s.body, scope, lambda sc: self.tup(vs), None)
            if any(isinstance(x, (ast.Break, ast.Return, ast.For, ast.While)) for b in s.body for x in ast.walk(b)):
                raise Untranslatable('control flow inside a conditional (line %d)' % s.lineno)
            return 'let %s := (if %s then (%s) else %s) in\n  %s' % (self.pat(vs), self.B(s.test, scope), inner, self.tup(vs), nxt(scope))
        if isinstance(s, (ast.While, ast.For)):
            if s.orelse:
                raise Untranslatable('loop else')
            self.nloop += 1
            lname = 'gen_%s_loop%d' % (self.name, self.nloop)
            state = []
            for v in self.assigned(s.body):
                if v in scope and v not in state:
                    state.append(v)
            params = [v for v in scope if v not in state]
            if isinstance(s, ast.While):
                if not (isinstance(s.test, ast.Constant) and s.test.value is True):
                    raise Untranslatable('while with a condition (line %d)' % s.lineno)
                ivar = None; body_scope = list(scope)
                fuel = 'fuel'; self.uses_fuel = True
                start = None
            else:
                it = s.iter
                if not (isinstance(it, ast.Call) and isinstance(it.func, ast.Name) and it.func.id == 'range' and 1 <= len(it.args) <= 2 and isinstance(s.target, ast.Name)):
                    raise Untranslatable('for loop that is not over range(..) (line %d)' % s.lineno)
                lo = '0' if len(it.args) == 1 else self.E(it.args[0], scope)
                hi = self.E(it.args[-1], scope)
                ivar = s.target.id
                if ivar in scope:
                    raise Untranslatable('loop variable %s shadows a variable' % ivar)
                body_scope = scope + [ivar]
                fuel = '(Z.to_nat (%s - %s))' % (hi, lo)
                start = lo
            sig = self.xsig + ' '.join('(%s : Z)' % self.cv(v) for v in params + ([ivar] if ivar else []) + state)
            args = lambda iv: self.xarg + ' '.join([self.cv(v) for v in params] + ([iv] if ivar else []) + [self.cv(v) for v in state])
            rec = '%s f %s' % (lname, args('(%s + 1)' % self.cv(ivar) if ivar else None))
            body = self.block(s.body, body_scope, lambda sc: rec, (state, rec))
            self.aux.append('Fixpoint %s (f_ : nat) %s {struct f_} :=\n  match f_ with\n  | O => %s\n  | S f =>\n  %s\n  end.' % (lname, sig, self.tup(state), body))
            call = '%s %s %s' % (lname, fuel, args(start))
            return 'let %s := %s in\n  %s' % (self.pat(state), call, nxt(scope))
        if isinstance(s, ast.Return):
            if rest:
                raise Untranslatable('code after return')
            if loop is not None:
                raise Untranslatable('return inside a loop')
            if isinstance(s.value, ast.Name) and s.value.id == self.result_obj:
                missing = [f for f in FIELDS if 'time.' + f not in scope]
                if missing:
                    raise Untranslatable('fields never set: %s' % missing)
                return '{| ' + '; '.join('%s := %s' % (FIELDS[f], V('time_' + f)) for f in FIELDS) + ' |}'
            return self.E(s.value, scope) if not isinstance(s.value, (ast.BoolOp, ast.Compare)) else self.B(s.value, scope)
        raise Untranslatable('statement %s (line %d)' % (type(s).__name__, s.lineno))


class Translator:
    def __init__(self, source, cls):
        self.cls = cls
        mod = ast.parse(source)
        self.cnode = next((n for n in mod.body if isinstance(n, ast.ClassDef) and n.name == cls), None)
        if self.cnode is None:
            raise Untranslatable('class %s not found' % cls)
        self.consts = {}; self.lists = {}; self.bool_fns = set()
        for n in self.cnode.body:
            if isinstance(n, ast.Assign) and len(n.targets) == 1 and isinstance(n.targets[0], ast.Name):
                nm = n.targets[0].id
                if isinstance(n.value, ast.Constant) and isinstance(n.value.value, int) and not isinstance(n.value.value, bool):
                    self.consts[nm] = n.value.value
                elif isinstance(n.value, ast.List) and all(isinstance(e, ast.Constant) and isinstance(e.value, int) for e in n.value.elts):
                    self.lists[nm] = [e.value for e in n.value.elts]

    def fn(self, name):
        f = [n for n in self.cnode.body if isinstance(n, ast.FunctionDef) and n.name == name]
        if len(f) != 1:
            raise Untranslatable('function %s defined %d times' % (name, len(f)))
        return f[0]

    def translate(self, bool_fn, read_fn, abs_fn):
        out = ['(* GENERATED on every run by harness/py2coq.py from the source of class %s - do not edit *)' % self.cls,
               'From Coq Require Import List ZArith Bool.', 'Import ListNotations.', 'From TL Require Import Model.ObsTime.', 'Open Scope Z_scope.', '']
        for nm, l in self.lists.items():
            out.append('Definition gen_%s : list Z := [%s].' % (nm.strip('_'), '; '.join(map(str, l))))
        # the boolean helper
        n = self.fn(bool_fn)
        args = [a.arg for a in n.args.args]
        if len(args) != 1:
            raise Untranslatable('%s takes %d arguments' % (bool_fn, len(args)))
        f = Fn(self, bool_fn, n)
        body = [s for s in n.body if not (isinstance(s, ast.Expr) and isinstance(s.value, ast.Constant))]
        if len(body) != 1 or not isinstance(body[0], ast.Return):
            raise Untranslatable('%s is not a single return' % bool_fn)
        out.append('Definition gen_%s (%s : Z) : bool := %s.' % (bool_fn, V(args[0]), f.B(body[0].value, [args[0]])))
        self.bool_fns.add(bool_fn)
        # the reader: one numeric parameter, builds an object of the class
        n = self.fn(read_fn)
        args = [a.arg for a in n.args.args]
        if len(args) != 1:
            raise Untranslatable('%s takes %d arguments' % (read_fn, len(args)))
        f = Fn(self, read_fn, n)
        text = f.block(n.body, [args[0]], lambda sc: (_ for _ in ()).throw(Untranslatable('%s does not end with return' % read_fn)))
        out += f.aux
        out.append('Definition gen_%s (fuel : nat) (%s : Z) : date :=\n  %s.' % (read_fn, V(args[0]), text))
        # the converter: a method of self
        n = self.fn(abs_fn)
        args = [a.arg for a in n.args.args]
        if len(args) != 1:
            raise Untranslatable('%s takes %d arguments' % (abs_fn, len(args)))
        f = Fn(self, abs_fn, n, self_param=args[0])
        text = f.block(n.body, [], lambda sc: (_ for _ in ()).throw(Untranslatable('%s does not end with return' % abs_fn)))
        if f.frac is None:
            raise Untranslatable('%s has no millisecond term' % abs_fn)
        out += f.aux
        out.append('(* whole seconds; the term  + self.ms / 1000.0  is kept apart: *)')
        out.append('Definition gen_%s (t : date) : Z :=\n  %s.' % (abs_fn, text))
        out.append('Definition gen_%s_frac (t : date) : Z * Z := (%s, %d).' % (abs_fn, f.frac[0], f.frac[1]))
        return '\n'.join(out) + '\n'


class Cmp:
    """comparison methods (self, other) -> bool: chains of  `if COND: return B`  ended by  `return B`"""
    OPS = {'__eq__': ast.Eq, '__ne__': ast.NotEq, '__lt__': ast.Lt, '__gt__': ast.Gt, '__le__': ast.LtE, '__ge__': ast.GtE}

    def __init__(self, tr, name, node):
        self.tr = tr; self.name = name; self.node = node
        args = [a.arg for a in node.args.args]
        if len(args) != 2:
            raise Untranslatable('%s takes %d arguments' % (name, len(args)))
        self.a, self.b = args

    def obj(self, n):
        if isinstance(n, ast.Name) and n.id in (self.a, self.b):
            return 'a' if n.id == self.a else 'b'
        return None

    def E(self, n):
        if isinstance(n, ast.Attribute) and self.obj(n.value) and n.attr in FIELDS:
            return '(%s %s)' % (FIELDS[n.attr], self.obj(n.value))
        if isinstance(n, ast.Constant) and isinstance(n.value, int) and not isinstance(n.value, bool):
            return str(n.value) if n.value >= 0 else '(%d)' % n.value
        raise Untranslatable('%s: expression %s (line %d)' % (self.name, type(n).__name__, n.lineno))

    def B(self, n):
        if isinstance(n, ast.Constant) and isinstance(n.value, bool):
            return 'true' if n.value else 'false'
        if isinstance(n, ast.UnaryOp) and isinstance(n.op, ast.Not):
            return '(negb %s)' % self.B(n.operand)
        if isinstance(n, ast.BoolOp):
            return '(' + (' && ' if isinstance(n.op, ast.And) else ' || ').join(self.B(v) for v in n.values) + ')'
        if isinstance(n, ast.Compare) and len(n.ops) == 1:
            l, r, op = n.left, n.comparators[0], n.ops[0]
            if self.obj(l) and self.obj(r):             # a comparison of the two objects themselves: another method of the class
                m = next((k for k, v in self.OPS.items() if isinstance(op, v)), None)
                if m is None or m not in self.tr.cmp_done:
                    raise Untranslatable('%s uses %s before it is translated (line %d)' % (self.name, type(op).__name__, n.lineno))
                return '(gen%s %s %s)' % (m, self.obj(l), self.obj(r))
            x, y = self.E(l), self.E(r)
            if isinstance(op, ast.Eq):
                return '(%s =? %s)' % (x, y)
            if isinstance(op, ast.NotEq):
                return '(negb (%s =? %s))' % (x, y)
            if isinstance(op, ast.Lt):
                return '(%s <? %s)' % (x, y)
            if isinstance(op, ast.LtE):
                return '(%s <=? %s)' % (x, y)
            if isinstance(op, ast.Gt):
                return '(%s <? %s)' % (y, x)
            if isinstance(op, ast.GtE):
                return '(%s <=? %s)' % (y, x)
            raise Untranslatable('%s: comparison %s (line %d)' % (self.name, type(op).__name__, n.lineno))     # `is`, `in`, ... : not the numeric comparison
        raise Untranslatable('%s: condition %s (line %d)' % (self.name, type(n).__name__, getattr(n, 'lineno', 0)))

    def is_type_guard(self, s):
        # if not isinstance(other, ObsTime): return False      (the model is typed)
        return (isinstance(s, ast.If) and not s.orelse and isinstance(s.test, ast.UnaryOp) and isinstance(s.test.op, ast.Not) and isinstance(s.test.operand, ast.Call)
                and isinstance(s.test.operand.func, ast.Name) and s.test.operand.func.id == 'isinstance' and len(s.test.operand.args) == 2
                and self.obj(s.test.operand.args[0]) == 'b' and isinstance(s.test.operand.args[1], ast.Name) and s.test.operand.args[1].id == self.tr.cls
                and len(s.body) == 1 and isinstance(s.body[0], ast.Return) and isinstance(s.body[0].value, ast.Constant) and s.body[0].value.value is False)

    def body(self, stmts):
        if not stmts:
            raise Untranslatable('%s can end without a return' % self.name)
        s, rest = stmts[0], stmts[1:]
        if isinstance(s, ast.Expr) and isinstance(s.value, ast.Constant) and isinstance(s.value.value, str):
            return self.body(rest)
        if self.is_type_guard(s):
            return self.body(rest)
        if isinstance(s, ast.Return):
            if rest:
                raise Untranslatable('%s: code after return' % self.name)
            return self.B(s.value)
        if isinstance(s, ast.If) and not s.orelse and len(s.body) == 1 and isinstance(s.body[0], ast.Return):
            return 'if %s then %s else\n  %s' % (self.B(s.test), self.B(s.body[0].value), self.body(rest))
        raise Untranslatable('%s: statement %s (line %d)' % (self.name, type(s).__name__, s.lineno))

    def text(self):
        return 'Definition gen%s (a b : date) : bool :=\n  %s.' % (self.name, self.body(self.node.body))


def translate_cmp(tr):
    tr.cmp_done = []
    out = ['', '(* comparison methods *)']
    for name in ('__eq__', '__lt__', '__gt__', '__ne__', '__ge__', '__le__'):
        out.append(Cmp(tr, name, tr.fn(name)).text())
        tr.cmp_done.append(name)
    return '\n'.join(out) + '\n'


class Simple:
    """methods made of  name = expr  lines and a return, over the integer parameters, the whole-second part of x.toAbsTime() and ObsTime.readUnixTime(e) as the value returned
    (addSec / addMin / addHour / addDay / __sub__; the sub-second part is outside the integer domain, see the module docstring)"""

    def __init__(self, tr, name, node, abs_fn, read_fn):
        self.tr = tr; self.name = name; self.node = node; self.abs_fn = abs_fn; self.read_fn = read_fn
        self.args = [a.arg for a in node.args.args]
        if len(self.args) != 2 or node.args.defaults or node.args.vararg or node.args.kwarg:
            raise Untranslatable('%s: parameters %r' % (name, self.args))

    def E(self, n, env):
        if isinstance(n, ast.Constant) and isinstance(n.value, int) and not isinstance(n.value, bool):
            return str(n.value) if n.value >= 0 else '(%d)' % n.value
        if isinstance(n, ast.Name) and n.id in env:
            return env[n.id]
        if isinstance(n, ast.BinOp) and type(n.op) in (ast.Add, ast.Sub, ast.Mult):
            return '(%s %s %s)' % (self.E(n.left, env), {ast.Add: '+', ast.Sub: '-', ast.Mult: '*'}[type(n.op)], self.E(n.right, env))
        if isinstance(n, ast.Call) and not n.args and not n.keywords and isinstance(n.func, ast.Attribute) and n.func.attr == self.abs_fn \
                and isinstance(n.func.value, ast.Name) and n.func.value.id in self.objs:
            return '(gen_%s %s)' % (self.abs_fn, self.objs[n.func.value.id])
        raise Untranslatable('%s: expression %s (line %d)' % (self.name, type(n).__name__, getattr(n, 'lineno', 0)))

    def text(self, second_is_object):
        a, b = self.args
        self.objs = {a: 't'}
        env = {}
        if second_is_object:
            self.objs[b] = 'u'; sig = '(t u : date)'
        else:
            env[b] = V(b); sig = '(t : date) (%s : Z)' % V(b)
        body = [s for s in self.node.body if not (isinstance(s, ast.Expr) and isinstance(s.value, ast.Constant) and isinstance(s.value.value, str))]
        out = ''
        for s in body[:-1]:
            if not (isinstance(s, ast.Assign) and len(s.targets) == 1 and isinstance(s.targets[0], ast.Name)):
                raise Untranslatable('%s: statement %s (line %d)' % (self.name, type(s).__name__, s.lineno))
            out += 'let %s := %s in\n  ' % (V(s.targets[0].id), self.E(s.value, env))
            env = dict(env); env[s.targets[0].id] = V(s.targets[0].id)
        r = body[-1] if body else None
        if not isinstance(r, ast.Return):
            raise Untranslatable('%s does not end with return' % self.name)
        v = r.value
        if isinstance(v, ast.Call) and isinstance(v.func, ast.Attribute) and isinstance(v.func.value, ast.Name) and v.func.value.id == self.tr.cls and v.func.attr == self.read_fn \
                and len(v.args) == 1 and not v.keywords:
            return 'Definition gen_%s (fuel : nat) %s : date :=\n  %s(gen_%s fuel %s).' % (self.name, sig, out, self.read_fn, self.E(v.args[0], env))
        return 'Definition gen%s %s : Z :=\n  %s%s.' % (self.name if self.name.startswith('__') else '_' + self.name, sig, out, self.E(v, env))


def translate_simple(tr):
    out = ['', '(* shifts and difference (whole seconds) *)']
    for name in ('addSec', 'addMin', 'addHour', 'addDay'):
        out.append(Simple(tr, name, tr.fn(name), 'toAbsTime', 'readUnixTime').text(False))
    out.append(Simple(tr, '__sub__', tr.fn('__sub__'), 'toAbsTime', 'readUnixTime').text(True))
    return '\n'.join(out) + '\n'


def translate_obstime(path):
    src = open(path).read()
    tr = Translator(src, 'ObsTime')
    return tr.translate('isLeapYear', 'readUnixTime', 'toAbsTime') + translate_cmp(tr) + translate_simple(tr)


if __name__ == '__main__':
    import sys
    print(translate_obstime(sys.argv[1]))
