"""C06 - shortest distances are the true minimum over permitted walks"""
import math, itertools
from core import Stream, q, coq_list, zlit

PROP = 'C06'
THEOREM_FILE = 'Props/C06.v'
NOTES = ['Dijkstra mode only (routing_mode = 0); heapq modelled as extract-min over the live keys (PrioDict.pops_spec proves the lazy-deletion heap refines it)',
         'float addition of weights abstracted: generated weights are small integers, exact in binary64']

IMPORTS = 'From Coq Require Import List ZArith QArith Bool.\nImport ListNotations.\nFrom TL Require Import Model.Graph.\nOpen Scope Q_scope.'
COMMON = '''Definition E (i s t : nat) (o : Z) (w : Q) : edge := {| eid := i; esrc := s; etgt := t; eori := o; ew := w |}.
Definition qeqb (a b : option Q) : bool := match a, b with Some x, Some y => Qeq_bool x y | None, None => true | _, _ => false end.
Definition fuel (g : graph) : nat := S (S (2 * length g)).
Definition big : Q := inject_Z 1000000000.
'''


def gen_graph(rng, small=False):
    nn = rng.randint(2, 5 if small else 12)
    ne = rng.randint(1, 6 if small else 40)
    W = rng.choice([[0, 0, 1, 2, 3, 5, 8], [1, 1, 2], [0, 1], [0.5, 1.5, 2, 0.25, 0]])
    if rng.random() < 0.15:                         # the same weights in a very large or very small unit (exact in binary): the routes do not depend on the unit
        sc = rng.choice([2.0 ** -40, 2.0 ** -34, 2.0 ** 20])
        W = [w * sc for w in W]
    return [[k, rng.randrange(nn), rng.randrange(nn), rng.choice([-1, 0, 0, 1]), rng.choice(W)] for k in range(ne)]


def exhaustive_small():
    """all multigraphs with <= 3 nodes and <= 2 edges over weights {0,1,2} and the three orientations"""
    out = []
    one = [(s, t, o, w) for s in range(3) for t in range(3) for o in (-1, 0, 1) for w in (0, 1, 2)]
    for e in one:
        out.append([[0] + list(e)])
    for e1, e2 in itertools.combinations_with_replacement(one, 2):
        out.append([[0] + list(e1), [1] + list(e2)])
    return out


def edge_label(eid, ids):
    # edge identifiers are arbitrary labels: integers, strings, the empty string (a blank id field in a file)
    return eid if ids == 'int' else ('' if (ids == 'blank' and eid == 0) else 'e%d' % eid)


def build_net(edges, ids='int', geo=False, nodeids=None):
    from tracklib.core import ENUCoords, GeoCoords, Obs, Track, Network, Node, Edge
    P = (lambda v: GeoCoords(2.0 + v * 1e-3, 48.0, 0)) if geo else (lambda v: ENUCoords(v, 0, 0))      # geo: a network read in geographic coordinates
    net = Network()
    for (eid, s, t, o, w) in edges:
        e = Edge(edge_label(eid, ids), Track([Obs(P(s)), Obs(P(t))]))
        e.orientation = o
        e.weight = w
        net.addEdge(e, Node(NID(s, nodeids), P(s)), Node(NID(t, nodeids), P(t)))
    return net


def NID(v, nodeids=None):
    """the identifier node v carries in the network: itself, or (nodeids='neg') the negative numbers an editor gives to new objects: -1, -2, -3 ..."""
    return -(v + 1) if nodeids == 'neg' else v


def UNID(k, nodeids=None):
    return -k - 1 if nodeids == 'neg' else k


def is_geo(case):
    return bool(case.get('pre')) and case['pre'][0] == 'enu'


def arcs_of(edges):
    arcs = []
    for (k, s, t, o, w) in edges:
        if o >= 0:
            arcs.append((s, t, w))
        if o <= 0:
            arcs.append((t, s, w))
    return arcs


def bellman_ford(edges, src):
    nodes = sorted({e[1] for e in edges} | {e[2] for e in edges})
    dist = {v: math.inf for v in nodes}
    dist[src] = 0
    arcs = arcs_of(edges)
    for _ in nodes:
        for a, b, w in arcs:
            if dist[a] + w < dist[b]:
                dist[b] = dist[a] + w
    return dist


def coq_edges(edges):
    return coq_list('E %d %d %d %s %s' % (i, s, t, zlit(o), q(w)) for (i, s, t, o, w) in edges)


# ------------------------------------------------------------------ stream 1: shortest_distance(s, t) for every t

def gen_dist(rng, n, tier):
    cases = []
    if tier == 'thorough':
        for g in exhaustive_small():
            for src in sorted({e[1] for e in g} | {e[2] for e in g}):
                cases.append({'edges': g, 'src': src})
    for k in range(n):
        g = gen_graph(rng, small=(k % 3 == 0))
        used = sorted({e[1] for e in g} | {e[2] for e in g})
        cases.append({'edges': g, 'src': rng.choice(used), 'shared': rng.random() < 0.3, 'pre': rand_pre(rng, True), 'ids': rng.choice(['int', 'int', 'str', 'blank']), 'nodeids': rng.choice([None, None, None, 'neg'])})
    return cases


def use_subnet(net, case):
    """other public operations that run the same search on the same network first: a sub-network extracted around a node and routed in,
    a table of all distances; the network itself must answer afterwards as if they had not happened"""
    pre = case.get('pre')
    if not pre:
        return
    nodes = sorted(net.NODES)
    if pre[0] == 'enu':
        # a network read in geographic coordinates and projected to a local frame before (0), after a first search (1), or there and back (2): weights, orientations and topology are untouched
        from tracklib.core import GeoCoords
        if pre[2] == 1:
            net.shortest_distance(nodes[0], nodes[-1]); net.shortest_distance(nodes[-1])
        net.toENUCoords(GeoCoords(2.0, 48.0, 0))
        if pre[2] == 2:
            net.toGeoCoords(GeoCoords(2.0, 48.0, 0))
    elif pre[0] == 'sub':
        sub = net.sub_network(nodes[pre[1] % len(nodes)], pre[2], verbose=False)
        sn = sorted(sub.NODES)
        if len(sn) >= 2:
            sub.shortest_distance(sn[0], sn[-1]); sub.shortest_path(sn[-1], sn[0])
    elif pre[0] == 'prep':
        net.prepare(cut=pre[2], verbose=False)      # the network's own precomputation (possibly with a finite radius): later searches are searches, not look-ups
    else:
        net.all_shortest_distances(cut=pre[2])


def rand_pre(rng, enu=False):
    if enu and rng.random() < 0.15:
        return ['enu', 0, rng.choice([0, 1, 1, 2])]
    return rng.choice([None, None, None, ['sub', rng.randrange(12), rng.choice([1, 3, 8, 1e300])], ['all', 0, rng.choice([2, 8, 1e300])], ['prep', 0, rng.choice([0, 1, 3, 1e300])]])


def run_dist(case):
    ni = case.get('nodeids')
    net = build_net(case['edges'], case.get('ids', 'int'), is_geo(case), ni)
    use_subnet(net, case)
    res = {}
    reg = {} if case.get('shared') else None      # the optional output dictionary, reused across successive calls as the API allows
    src = NID(case['src'], ni)
    for t in sorted(net.NODES):
        res[str(UNID(t, ni))] = net.shortest_distance(src, t, output_dict=reg) if reg is not None else net.shortest_distance(src, t)
    # untargeted form: list over all nodes (1e300 for unreachable)
    lst = net.shortest_distance(src)
    return {'to': res, 'all': dict(zip([str(UNID(k, ni)) for k in net.NODES], lst))}


def coq_dist(case, obs):
    if 'exc' in obs:
        return None
    rs = coq_list('(%s%%nat, %s)' % (t, 'None' if d < 0 else 'Some ' + q(d)) for t, d in obs['to'].items())
    ra = coq_list('(%s%%nat, %s)' % (t, 'None' if d >= 1e300 else 'Some ' + q(d)) for t, d in obs['all'].items())
    return '(%s, %d%%nat, %s, %s)' % (coq_edges(case['edges']), case['src'], rs, ra)


def oracle_dist(case, obs):
    if 'exc' in obs:
        return 'shortest_distance raised %s' % obs['exc']
    dist = bellman_ford(case['edges'], case['src'])
    for t, d in dist.items():
        exp = -1 if d == math.inf else d
        got = obs['to'][str(t)]
        if (exp < 0) != (got < 0) or (exp >= 0 and got != exp):
            return 'shortest_distance(%s, %s) = %r but the minimum over permitted walks is %r' % (case['src'], t, got, exp)
        ga = obs['all'][str(t)]
        expa = 1e300 if d == math.inf else d
        if ga != expa:
            return 'shortest_distance(%s)[node %s] = %r but the minimum over permitted walks is %r' % (case['src'], t, ga, expa)
    return None


def shrink_edges(case):
    es = case['edges']
    for i in range(len(es)):
        rest = [list(e) for e in es[:i] + es[i + 1:]]
        if not rest:
            continue
        used = {e[1] for e in rest} | {e[2] for e in rest}
        if case['src'] in used:
            c = dict(case)
            c['edges'] = rest
            yield c


def klass_dist(case, obs):
    if 'exc' in obs:
        return 'raises'
    vals = list(obs['to'].values())
    return 'nodes=%d,unreach=%s,zero=%s' % (len(vals), any(v < 0 for v in vals), sum(1 for v in vals if v == 0) > 1)


S_DIST = Stream(
    name='dist', budget={'quick': 300, 'thorough': 4000},
    rule=('random directed multigraphs (2..12 nodes, 1..40 edges, weights from integer / {0,1} / dyadic sets, three orientations, self-loops and '
          'parallel edges; thorough adds every multigraph with <= 3 nodes and <= 2 edges over weights {0,1,2}), one source, every target with and '
          'without the target argument; non-trivial = some target at distance > 0; distinct by hash of (edges, source)'),
    imports=IMPORTS, case_type='graph * nat * list (nat * option Q) * list (nat * option Q)',
    check_def=COMMON + '''Definition ok (c : graph * nat * list (nat * option Q) * list (nat * option Q)) : bool :=
  let '(g, src, exp, expall) := c in
  forallb (fun '(t, d) => qeqb (poids (run (fuel g) g (Some t) big (init src)) t) d) exp &&
  (let s := run (fuel g) g None big (init src) in forallb (fun '(t, d) => qeqb (poids s t) d) expall).''',
    generate=gen_dist, run_impl=run_dist, coq_case=coq_dist, oracle=oracle_dist, shrink=shrink_edges, klass=klass_dist,
    nontrivial=lambda c, o: 'to' in o and any(v > 0 for v in o['to'].values()))


# ------------------------------------------------------------------ stream 2: all_shortest_distances(cut) table

def gen_table(rng, n, tier):
    cases = []
    for k in range(n):
        g = gen_graph(rng, small=(k % 2 == 0))
        cut = rng.choice([0, 1, 2, 3, 5, 8, 13, 0.5, 2.5, 1e300, -1, -2.5])      # a negative cut-off: no distance is that small, the table is empty
        cases.append({'edges': g, 'cut': cut, 'pre': rand_pre(rng, True), 'ids': rng.choice(['int', 'int', 'str', 'blank']), 'via': rng.choice([None, None, 'prepare', 'twice']), 'nodeids': rng.choice([None, None, None, 'neg'])})
    return cases


def run_table(case):
    ni = case.get('nodeids')
    net = build_net(case['edges'], case.get('ids', 'int'), is_geo(case), ni)
    use_subnet(net, case)
    if case.get('via') in ('prepare', 'twice') and not (case.get('pre') and case['pre'][0] == 'prep'):      # (not after an earlier preparation with another cut-off: a smaller cut-off does not shrink a table)
        # the table built by the network's own prepare(): once, or a second time with a larger cut-off after a first preparation with a smaller one (the table then
        # holds exactly the pairs within the new cut-off)
        if case['via'] == 'twice' and case['cut'] > 0:
            net.prepare(cut=min(case['cut'] / 2.0, 1.0), verbose=False)
        net.prepare(cut=case['cut'], verbose=False)
        d = net.DISTANCES
    else:
        d = net.all_shortest_distances(cut=case['cut'])
        net.DISTANCES = d
    nodes = sorted(net.NODES)
    prep = {'%d,%d' % (UNID(s, ni), UNID(t, ni)): net.prepared_shortest_distance(s, t) for s in nodes for t in nodes}
    return {'table': sorted([[UNID(k[0], ni), UNID(k[1], ni), v] for k, v in d.items()]), 'prep': prep}


def coq_table(case, obs):
    if 'exc' in obs:
        return None
    nodes = sorted({e[1] for e in case['edges']} | {e[2] for e in case['edges']})
    cut = 'big' if case['cut'] >= 1e300 else q(case['cut'])
    tb = coq_list('(%d%%nat, %d%%nat, %s)' % (s, t, q(v)) for s, t, v in obs['table'])
    return '(%s, %s, %s, %s)' % (coq_edges(case['edges']), cut, coq_list('%d%%nat' % v for v in nodes), tb)


def oracle_table(case, obs):
    if 'exc' in obs:
        return 'all_shortest_distances raised %s' % obs['exc']
    nodes = sorted({e[1] for e in case['edges']} | {e[2] for e in case['edges']})
    exp = {}
    for s in nodes:
        for t, d in bellman_ford(case['edges'], s).items():
            if d <= case['cut']:
                exp[(s, t)] = d
    got = {(s, t): v for s, t, v in obs['table']}
    for k in sorted(set(exp) | set(got)):
        if k not in got:
            return 'pair %r has true distance %r <= cut %r but is missing from the table' % (k, exp[k], case['cut'])
        if k not in exp:
            return 'pair %r is in the table with %r but its true distance exceeds the cut %r (or no walk exists)' % (k, got[k], case['cut'])
        if got[k] != exp[k]:
            return 'table[%r] = %r, true distance %r' % (k, got[k], exp[k])
    for k, v in obs['prep'].items():
        s, t = map(int, k.split(','))
        e = exp.get((s, t), 1e300)
        if v != e:
            return 'prepared_shortest_distance(%d, %d) = %r, expected %r' % (s, t, v, e)
    return None


def shrink_table(case):
    es = case['edges']
    for i in range(len(es)):
        rest = [list(e) for e in es[:i] + es[i + 1:]]
        if rest:
            c = dict(case)
            c['edges'] = rest
            yield c


S_TABLE = Stream(
    name='table', budget={'quick': 150, 'thorough': 2500},
    rule=('random multigraphs as in stream dist with a cut-off below / equal to / above exact distances (and the default 1e300); the whole '
          'all_shortest_distances(cut) dictionary and prepared_shortest_distance for every ordered pair; non-trivial = table has an off-diagonal entry'),
    imports=IMPORTS, case_type='graph * Q * list nat * list (nat * nat * Q)',
    check_def=COMMON + '''Definition tab_eqb (a b : nat * Q) : bool := Nat.eqb (fst a) (fst b) && Qeq_bool (snd a) (snd b).
Definition ok (c : graph * Q * list nat * list (nat * nat * Q)) : bool :=
  let '(g, cut, nodes, tb) := c in
  forallb (fun s =>
    let o := out (run (fuel g) g None cut (init s)) in
    let mine := filter (fun '(s', _, _) => Nat.eqb s' s) tb in
    Nat.eqb (length o) (length mine) &&
    forallb (fun e => existsb (fun '(_, t, d) => tab_eqb e (t, d)) mine) o) nodes.''',
    generate=gen_table, run_impl=run_table, coq_case=coq_table, oracle=oracle_table, shrink=shrink_table,
    klass=lambda c, o: 'cut=%s' % ('inf' if c['cut'] >= 1e300 else 'finite'),
    nontrivial=lambda c, o: 'table' in o and any(s != t for s, t, _ in o['table']))

# ------------------------------------------------------------------ stream 3: the priority queue of the search, on its own

def gen_pq(rng, n, tier):
    out = []
    for _ in range(n):
        nk = rng.randint(2, 8)
        ppop = rng.choice([0.15, 0.3, 0.45])
        ops = []
        for _ in range(rng.randint(5, 60)):
            if rng.random() < ppop:
                ops.append(['pop'])                     # on an empty queue the runner records -1 and goes on
            else:
                ops.append(['set', rng.randrange(nk), rng.choice([0, 1, 2, 3, 5, 8, rng.randint(0, 9)])])
        out.append({'ops': ops})
    return out


def run_pq(case):
    from tracklib.core.utils import priority_dict
    pq = priority_dict()
    pops = []
    for op in case['ops']:
        if op[0] == 'set':
            pq[op[1]] = op[2]
        else:
            pops.append(int(pq.pop_smallest()) if len(pq) else -1)
    rest = []
    while len(pq):
        rest.append(int(pq.pop_smallest()))
    return {'pops': pops, 'rest': rest}


def coq_pq(case, obs):
    if 'exc' in obs:
        return None
    ops = coq_list('(Some (%d%%nat, %d%%Z))' % (op[1], op[2]) if op[0] == 'set' else 'None' for op in case['ops'])
    return '(%s, %s, %s)' % (ops, coq_list('(%d)%%Z' % p for p in obs['pops']), coq_list('(%d)%%Z' % p for p in obs['rest']))


def oracle_pq(case, obs):
    if 'exc' in obs:
        return 'priority_dict raised %s' % obs['exc']
    d = {}; pops = []
    def pop():
        k = min(d, key=lambda k: (d[k], k)); del d[k]; return k
    for op in case['ops']:
        if op[0] == 'set':
            d[op[1]] = op[2]
        else:
            pops.append(pop() if d else -1)
    rest = []
    while d:
        rest.append(pop())
    if pops != obs['pops'] or rest != obs['rest']:
        return 'priority_dict popped %r then %r; the keys of least (priority, key) are %r then %r (operations %r)' % (obs['pops'], obs['rest'], pops, rest, case['ops'])
    return None


PQ_CHECK = '''Fixpoint pdel (d : list (nat * Z)) (k : nat) : list (nat * Z) := match d with [] => [] | (k', v) :: r => if Nat.eqb k' k then pdel r k else (k', v) :: pdel r k end.
Definition ple (a b : nat * Z) : bool := if Z.ltb (snd a) (snd b) then true else if Z.ltb (snd b) (snd a) then false else Nat.leb (fst a) (fst b).
Fixpoint pmin (d : list (nat * Z)) (best : nat * Z) : nat * Z := match d with [] => best | e :: r => pmin r (if ple e best then e else best) end.
Definition ppop (d : list (nat * Z)) : option (nat * list (nat * Z)) := match d with [] => None | e :: r => let m := pmin r e in Some (fst m, pdel d (fst m)) end.
Fixpoint prun (ops : list (option (nat * Z))) (d : list (nat * Z)) (acc : list Z) : list Z * list (nat * Z) :=
  match ops with
  | [] => (rev acc, d)
  | Some (k, v) :: r => prun r ((k, v) :: pdel d k) acc
  | None :: r => match ppop d with Some (k, d') => prun r d' (Z.of_nat k :: acc) | None => prun r d ((-1)%Z :: acc) end
  end.
Fixpoint pdrain (fuel : nat) (d : list (nat * Z)) : list Z := match fuel with O => [] | S f => match ppop d with Some (k, d') => Z.of_nat k :: pdrain f d' | None => [] end end.
Definition zeqb (a b : list Z) : bool := if list_eq_dec Z.eq_dec a b then true else false.
Definition ok (c : list (option (nat * Z)) * list Z * list Z) : bool :=
  let '(ops, pops, rest) := c in let '(p, d) := prun ops [] [] in zeqb p pops && zeqb (pdrain (S (List.length d)) d) rest.'''

S_PQ = Stream(
    name='queue', budget={'quick': 400, 'thorough': 10000},
    rule=('utils.priority_dict on its own (the queue of run_routing_forward and of fast DTW): 5..60 operations over 2..8 integer keys - insertions, many re-prioritisations of live keys up and down with '
          'ties (so that the lazy heap reaches twice the number of live keys and is rebuilt), pops interleaved, then drained; compared with "pop the key of least (priority, key)"'),
    imports='From Coq Require Import List ZArith Bool Arith.\nImport ListNotations.',
    case_type='list (option (nat * Z)) * list Z * list Z', check_def=PQ_CHECK,
    generate=gen_pq, run_impl=run_pq, coq_case=coq_pq, oracle=oracle_pq,
    nontrivial=lambda c, o: len(c['ops']) >= 10, klass=lambda c, o: 'ops<%d' % (10 * (1 + len(c['ops']) // 10)))

STREAMS = [S_DIST, S_TABLE, S_PQ]