"""C18 - DTW cost is the optimal coupling cost and the matching realises it"""
import math, functools
from core import Stream, q, coq_list

PROP = 'C18'
THEOREM_FILE = 'Props/C18.v'
NOTES = ['the matching is compared through the abstraction of the theorem (a monotone coupling from the first to the last pair whose accumulated cost is the score); another optimal coupling is not a disagreement',
         'stream exact: collinear integer positions, all distances and sums exact in binary64, scores compared exactly; stream planar: the distance matrix is the implementation\'s own (sqrt trusted), sums compared to 1e-9',
         'p in {1, 2, inf}; p = 0 (count of non-zero distances) and user weight functions are not claimed']
INF = float('inf')
IMPORTS = 'From Coq Require Import List Arith QArith Qabs Bool.\nImport ListNotations.\nFrom TL Require Import Model.Dtw Model.Fdtw.\nOpen Scope Q_scope.'
CHECK = '''Definition close (a b tol : Q) : bool := Qle_bool (Qabs (a - b)) (tol * (1 + Qabs b)).
Definition Dm (rows : list (list Q)) (i j : nat) : Q := nth j (nth i rows []) 0.
Definition wsel (k : nat) : Q -> Q -> Q := match k with 1%nat => Qplus | 2%nat => (fun A B => A + B * B) | _ => (fun A B => if Qlt_le_dec A B then B else A) end.
Definition stepb (p q : nat * nat) : bool :=
  let '(a, b) := p in let '(c, d) := q in
  ((c =? S a) && (d =? b) || (c =? a) && (d =? S b) || (c =? S a) && (d =? S b))%nat.
Fixpoint chainb (l : list (nat * nat)) : bool := match l with p :: ((r :: _) as t) => stepb p r && chainb t | _ => true end.
Definition peq (p q : nat * nat) : bool := ((fst p =? fst q) && (snd p =? snd q))%nat.
Definition ok (c : nat * nat * nat * list (list Q) * (Q * Q * Q) * list (nat * nat) * nat * Q) : bool :=
  let '(k, n2, n1, rows, (score, fscore, sscore), path, nb, tol) := c in
  let w := wsel k in let D := Dm rows in
  let t := T w D n2 n1 (n2 - 1) (n1 - 1) in
  close score t tol && close fscore t tol && close sscore t tol &&
  peq (hd (9, 9)%nat path) (0, 0)%nat && peq (last path (9, 9)%nat) (n2 - 1, n1 - 1)%nat && chainb path &&
  close (path_cost w D path) score tol && (length path =? nb)%nat &&
  match fdtw_score w D n2 n1 with Some f => close f t tol | None => false end.'''


def gen_exact(rng, n, tier):
    out = []
    if tier == 'thorough':      # every pair of tracks of sizes <= 3 over {0,1,2}, p in {1, inf}
        import itertools
        for n1 in (1, 2, 3):
            for n2 in (1, 2, 3):
                for x1 in itertools.product((0, 1, 2), repeat=n1):
                    for x2 in itertools.product((0, 1, 2), repeat=n2):
                        for p in (1, INF):
                            out.append({'x1': [[v, 0] for v in x1], 'x2': [[v, 0] for v in x2], 'p': p})
    for _ in range(n):
        n1 = rng.randint(1, 7)
        n2 = rng.randint(1, 7)
        vals = rng.choice([[0, 1], [0, 1, 2, 3], [0, 1, 2, 5, 9]])
        dim = rng.choice([2, 2, 1])                                  # dim 1: the altitude column carries the signal, the abscissa is noise for the distance
        zv = (lambda: rng.choice(vals)) if dim == 1 else (lambda: rng.choice([0, 0, 3]))
        out.append({'x1': [[rng.choice(vals), 0, zv()] for _ in range(n1)], 'x2': [[rng.choice(vals), 0, zv()] for _ in range(n2)], 'p': rng.choice([1, 2, INF]), 'dim': dim, 'rematch': rng.choice([None, None, None, 'dtw', 'frechet']), 'ptype': rng.choice([None, None, 'float', 'np.int64', 'np.float64', 'np.int32']), 'later': rng.random() < 0.3, 'plot': rng.random() < 0.2})
        if rng.random() < 0.12:                                       # the same track recorded again, some fixes repeated: a coupling of cost exactly 0 exists
            c = out[-1]; x2 = [list(v) for v in c['x1']]
            for _ in range(rng.randint(0, 2)):
                i = rng.randrange(len(x2)); x2.insert(i, list(x2[i]))
            c['x2'] = x2
    return out


def gen_planar(rng, n, tier):
    out = []
    for _ in range(n):
        n1 = rng.randint(1, 6)
        n2 = rng.randint(1, 6)
        pt = lambda: [rng.randint(-30, 30) / 4.0, rng.randint(-30, 30) / 4.0, rng.choice([0.0, 0.0, rng.randint(-20, 20) / 4.0])]
        out.append({'x1': [pt() for _ in range(n1)], 'x2': [pt() for _ in range(n2)], 'p': rng.choice([1, 2, INF]), 'dim': rng.choice([2, 2, 1, 3]), 'rematch': rng.choice([None, None, None, 'dtw', 'frechet']), 'ptype': rng.choice([None, None, 'float', 'np.int64', 'np.float64', 'np.int32']), 'later': rng.random() < 0.3, 'plot': rng.random() < 0.2})
        if rng.random() < 0.2:
            out[-1]['geo'] = True; out[-1]['dim'] = 2
        elif rng.random() < 0.12:
            # the same shapes in a small unit (degrees or kilometres kept in local coordinates): homologous fixes a few 1e-5 apart are different positions
            sc = rng.choice([2.0 ** -16, 2.0 ** -17, 2.0 ** -15])
            out[-1]['x1'] = [[v * sc for v in p] for p in out[-1]['x1']]; out[-1]['x2'] = [[v * sc for v in p] for p in out[-1]['x2']]
    for _ in range(2):
        # two recordings of the same road, a few hundred fixes each: one waits at the start, the other at the end, so the best coupling runs far from the diagonal
        # (more than 200 cells): the fast variant must still find it.  Oracle only.
        w = rng.choice([208, 215, 230]); r = rng.choice([12, 40, 55])
        road = [[float(i), 0.0, 0.0] for i in range(1, r + 1)]
        x1 = [[0.0, 0.001 * (k % 7), 0.0] for k in range(w)] + road
        x2 = road[:-1] + [[float(r), 0.001 * (k % 5), 0.0] for k in range(w + 1)]
        x2 = [[0.0, 0.0, 0.0]] + x2
        out.append({'x1': x1, 'x2': x2, 'p': rng.choice([1, 2, INF]), 'dim': 2, 'rematch': None, 'ptype': None, 'later': False, 'plot': False})
    for _ in range(max(6, n // 40)):
        # a short track with an outlier against the same route recorded with a stop of 55..80 fixes (creeping by millimetres), the fast variant called with its default
        # arguments (verbose left on): the best coupling pays the outlier once, early; lingering on the first column is cheap for many rows and dearer in the end.  Oracle only.
        m = rng.randint(55, 80)
        far = rng.choice([-70.0, 60.0, -45.0]); e = rng.choice([0.001, 0.002, 0.0005])
        x1 = [[0.0, 0.0, 0.0], [far, 0.0, 0.0], [1.0, 0.0, 0.0], [1.0, 5.0, 0.0]][:rng.choice([3, 4, 4])]
        x2 = [[0.0, 0.0, 0.0]] + [[1.0, e * k, 0.0] for k in range(m)] + ([[1.0, 5.0, 0.0]] if rng.random() < 0.7 else [])
        if rng.random() < 0.25:
            x1, x2 = x2, x1
        out.append({'x1': x1, 'x2': x2, 'p': rng.choice([1, 2, INF]), 'dim': 2, 'rematch': None, 'ptype': None, 'later': False, 'plot': False, 'vdefault': True})
    return out


def mk(pts, geo=False):
    from tracklib.core import ObsTime, ENUCoords, GeoCoords, Obs, Track
    if geo:      # the same shapes in geographic coordinates (degrees), as read from a GPX file before any projection
        return Track([Obs(GeoCoords(2.0 + p[0] * 1e-4, 48.0 + p[1] * 1e-4, p[2] if len(p) > 2 else 0), ObsTime.readUnixTime(i)) for i, p in enumerate(pts)])
    return Track([Obs(ENUCoords(p[0], p[1], p[2] if len(p) > 2 else 0), ObsTime.readUnixTime(i)) for i, p in enumerate(pts)])


def dist_dim(a, b, dim):
    """the pointwise distance of the comparison functions: dim 1 = altitude difference, 2 = planimetric, 3 = spatial"""
    az = a[2] if len(a) > 2 else 0.0; bz = b[2] if len(b) > 2 else 0.0
    if dim == 1:
        return abs(az - bz)
    if dim == 2:
        return math.hypot(a[0] - b[0], a[1] - b[1])
    return math.sqrt((a[0] - b[0]) ** 2 + (a[1] - b[1]) ** 2 + (az - bz) ** 2)


def run_impl(case):
    import sys, tracklib.algo.comparison
    cmp = sys.modules['tracklib.algo.comparison']
    geo = bool(case.get('geo'))
    t1, t2 = mk(case['x1'], geo), mk(case['x2'], geo)
    p = case['p']; dim = case.get('dim', 2)
    if p != INF and case.get('ptype'):            # the same exponent in another numeric representation
        import numpy as np
        p = {'float': float, 'np.int64': np.int64, 'np.float64': np.float64, 'np.int32': np.int32}[case['ptype']](p)
    if case.get('rematch'):                       # the first track is itself the output of an earlier matching (a reference registered on several tracks in turn)
        t3 = mk(case['x2'][::-1] + case['x1'][:1], geo)
        t1 = cmp.match(t1, t3, mode=cmp.MODE_MATCHING_FRECHET if case['rematch'] == 'frechet' else cmp.MODE_MATCHING_DTW, p=1, dim=dim, verbose=False)
    if p == INF:
        m = cmp.match(t1, t2, mode=cmp.MODE_MATCHING_FRECHET, dim=dim, verbose=False)
        fre = cmp.compare(t1, t2, mode=cmp.MODE_COMPARISON_FRECHET, dim=dim, verbose=False)
    else:
        m = cmp.match(t1, t2, mode=cmp.MODE_MATCHING_DTW, p=p, dim=dim, verbose=False)
        fre = None
    if case.get('later'):                         # the same first track is matched against another track afterwards: the result obtained before is the caller's and must stay what it was
        t4 = mk([[v[0] + 1.5] + list(v[1:]) for v in case['x2'][::-1]] + case['x1'][:2], geo)
        cmp.match(t1, t4, mode=cmp.MODE_MATCHING_DTW, p=1, dim=dim, verbose=False)
        cmp.match(t1, t4, mode=cmp.MODE_MATCHING_FRECHET, dim=dim, verbose=False)
    f = cmp.match(t1, t2, mode=cmp.MODE_MATCHING_FDTW, p=p, dim=dim, plot=bool(case.get('plot')), **({} if case.get('vdefault') else {'verbose': False}))      # the display flag must not change what is returned
    if case.get('plot'):
        import matplotlib.pyplot as plt
        plt.close('all')
    s = cmp.match(t2, t1, mode=cmp.MODE_MATCHING_FRECHET if p == INF else cmp.MODE_MATCHING_DTW, p=p, dim=dim, verbose=False)
    pairs = [[int(i) for i in m['pair', j]] for j in range(len(case['x1']))]
    D = [[dist_dim(case['x2'][i], case['x1'][j], dim) for j in range(t1.size())] for i in range(t2.size())]      # the pointwise distances, computed here (not by the implementation)
    if geo:      # the planimetric distance of geographic positions is the library's public distance2DTo (metres), from the second track's fix to the first's, as the matching measures it
        D = [[t2.getObs(i).position.distance2DTo(t1.getObs(j).position) for j in range(t1.size())] for i in range(t2.size())]
    # (distance2DTo of geographic positions is not exactly symmetric: the swap is not compared for geographic tracks)
    return {'score': float(m.score), 'fscore': float(f.score), 'sscore': float(m.score if geo else s.score), 'pairs': pairs, 'nb': int(m.nb_links), 'D': D,
            'frechet': None if fre is None else float(fre), 'src1': [o.position.getX() for o in t1], 'fpairs': [[int(i) for i in f['pair', j]] for j in range(len(case['x1']))]}


def path_of(pairs):
    return [(i, j) for j, l in enumerate(pairs) for i in l]


def coq_case_tol(tol):
    def f(case, obs):
        if 'exc' in obs or any(v != v or abs(v) == float('inf') for v in (obs['score'], obs['fscore'], obs['sscore'])):
            return None                               # an undefined score is not a value of the model: left to the oracle
        if len(case['x1']) > 20 or len(case['x2']) > 20:
            return None                               # long tracks: the oracle's own dynamic programme decides (the model's table in exact rationals takes 10 s per case)
        n1, n2 = len(case['x1']), len(case['x2'])
        k = {1: 1, 2: 2, INF: 0}[case['p']]
        rows = coq_list(coq_list(q(v) for v in r) for r in obs['D'])
        path = coq_list('(%d, %d)%%nat' % ij for ij in path_of(obs['pairs']))
        return '(%d%%nat, %d%%nat, %d%%nat, %s, (%s, %s, %s), %s, %d%%nat, %s)' % (k, n2, n1, rows, q(obs['score']), q(obs['fscore']), q(obs['sscore']), path, obs['nb'], tol)
    return f


def oracle_tol(tol):
    def f(case, obs):
        if 'exc' in obs:
            return 'match raised %s' % obs['exc']
        x1, x2, p = case['x1'], case['x2'], case['p']
        n1, n2 = len(x1), len(x2)
        d = (lambda i, j: obs['D'][i][j]) if case.get('geo') else (lambda i, j: dist_dim(x2[i], x1[j], case.get('dim', 2)))      # geographic tracks: the library's public point distance
        acc = (lambda A, B: max(A, B)) if p == INF else (lambda A, B: A + B ** p)
        # minimum over all couplings: enumerate the three predecessors recursively (independent of the table layout of the code)
        @functools.lru_cache(None)
        def best(i, j):
            if i == 0 and j == 0:
                return acc(0, d(0, 0))
            cands = []
            if i > 0:
                cands.append(best(i - 1, j))
            if j > 0:
                cands.append(best(i, j - 1))
            if i > 0 and j > 0:
                cands.append(best(i - 1, j - 1))
            return acc(min(cands), d(i, j))
        if n1 * n2 > 2000:
            # long tracks: the same recurrence filled row by row (no recursion)
            prev = None
            for i in range(n2):
                row = []
                for j in range(n1):
                    if i == 0 and j == 0:
                        row.append(acc(0, d(0, 0))); continue
                    cands = []
                    if i > 0:
                        cands.append(prev[j])
                    if j > 0:
                        cands.append(row[j - 1])
                    if i > 0 and j > 0:
                        cands.append(prev[j - 1])
                    row.append(acc(min(cands), d(i, j)))
                prev = row
            opt = prev[n1 - 1]
        else:
            opt = best(n2 - 1, n1 - 1)
        close = lambda a, b: abs(a - b) <= tol * (1 + abs(b))
        if not close(obs['score'], opt):
            return 'score %r but the minimum accumulated cost over all couplings is %r (p=%r)' % (obs['score'], opt, p)
        if not close(obs['fscore'], opt):
            return 'fast variant reports %r, optimum %r' % (obs['fscore'], opt)
        if not close(obs['sscore'], obs['score']):
            return 'score %r but %r with the two tracks swapped' % (obs['score'], obs['sscore'])
        if obs['frechet'] is not None and not close(obs['frechet'], opt):
            return 'compare(FRECHET) = %r, discrete Frechet distance %r' % (obs['frechet'], opt)
        path = path_of(obs['pairs'])
        if not path or path[0] != (0, 0) or path[-1] != (n2 - 1, n1 - 1):
            return 'matching %r does not run from the first pair to the last pair' % (path,)
        for a, b in zip(path, path[1:]):
            if (b[0] - a[0], b[1] - a[1]) not in ((1, 0), (0, 1), (1, 1)):
                return 'matching %r is not a monotone coupling (step %r -> %r)' % (path, a, b)
        if set(i for i, _ in path) != set(range(n2)) or set(j for _, j in path) != set(range(n1)):
            return 'matching %r does not link every observation' % (path,)
        c = 0
        for i, j in path:
            c = acc(c, d(i, j))
        if not close(c, obs['score']):
            return 'the returned coupling %r accumulates %r but the reported score is %r' % (path, c, obs['score'])
        if obs['nb'] != len(path):
            return 'nb_links = %r but the matching has %d links' % (obs['nb'], len(path))
        return None
    return f


def shrink(case):
    for k in ('x1', 'x2'):
        if len(case[k]) > 1:
            for i in range(len(case[k])):
                c = dict(case)
                c[k] = case[k][:i] + case[k][i + 1:]
                yield c


def mkstream(name, gen, tol, tolq, budget, rule):
    return Stream(name=name, budget=budget, rule=rule, imports=IMPORTS, check_def=CHECK,
                  case_type='nat * nat * nat * list (list Q) * (Q * Q * Q) * list (nat * nat) * nat * Q',
                  generate=gen, run_impl=run_impl, coq_case=coq_case_tol(tolq), oracle=oracle_tol(tol), shrink=shrink,
                  nontrivial=lambda c, o: len(c['x1']) >= 2 and len(c['x2']) >= 2, klass=lambda c, o: 'p=%s' % c['p'])


STREAMS = [
    mkstream('exact', gen_exact, 0.0, '0', {'quick': 500, 'thorough': 5000},
             'pairs of tracks of 1..7 collinear fixes with integer abscissas from small sets (ties frequent), p in {1, 2, inf} (thorough adds every pair of sizes <= 3 over {0,1,2}); '
             'observed through match(): score, pair lists, nb_links, score of the fast variant, score with the tracks swapped, compare(FRECHET); non-trivial = both tracks have >= 2 fixes'),
    mkstream('planar', gen_planar, 1e-9, '(1 # 1000000000)', {'quick': 200, 'thorough': 3000},
             'pairs of planar tracks of 1..6 fixes on a quarter-integer lattice, p in {1, 2, inf}; the model receives the implementation\'s distance matrix; sums compared to 1e-9'),
]
