"""C08 - the grid spatial index has no false negatives"""
import math
from fractions import Fraction as F
from core import Stream, q, coq_list, zlit

PROP = 'C08'
THEOREM_FILE = 'Props/C08.v'
NOTES = ['exact streams use quarter-integer coordinates, margins in {0, 1/2} and resolutions in {1/2, 1, 2} so that every grid coordinate is dyadic and binary64 arithmetic is exact',
         'explicit resolution; bounding boxes of positive width and height at least one cell wide (otherwise the constructor divides by zero: outside the property\'s domain)',
         'stream decimal is a float-stress search on non-dyadic set-ups (oracle only); a segment that meets a cell only in a lattice corner may be missed by a rounding error of the straddle test: '
         'known-finding class "lattice-corner-rounding"']
IMPORTS = 'From Coq Require Import List ZArith QArith Bool.\nImport ListNotations.\nFrom TL Require Import Model.Grid.\nOpen Scope Q_scope.'
COMMON = '''Definition leqb (a b : list nat) : bool := if list_eq_dec Nat.eq_dec a b then true else false.
Definition subset (a b : list nat) : bool := forallb (fun x => existsb (Nat.eqb x) b) a.
Definition seteq (a b : list nat) : bool := subset a b && subset b a.
Definition oeq (a : option (list nat)) (b : option (list nat)) : bool := match a, b with Some x, Some y => seteq x y | None, None => true | _, _ => false end.
'''


def mk(pts):
    from tracklib.core import ObsTime, ENUCoords, Obs, Track
    return Track([Obs(ENUCoords(x, y, 0), ObsTime.readUnixTime(i)) for i, (x, y) in enumerate(pts)])


def gen_setup(rng, decimal=False):
    W = rng.choice([2, 4, 6, 8]); H = rng.choice([2, 4, 6])
    step = 10 if decimal else 4
    ntr = rng.randint(1, 4)
    trs = []
    for _ in range(ntr):
        n = rng.randint(2, 5)
        trs.append([[rng.randint(0, W * step) / float(step), rng.randint(0, H * step) / float(step)] for _ in range(n)])
    trs[0][0] = [0.0, 0.0]
    trs[0][-1] = [float(W), float(H)]                 # the bounding box is [0,W] x [0,H]
    if rng.random() < 0.4:                            # ... spanned by interior vertices of a curved feature, its ends (the nodes of a network edge) lying inside
        trs[0] = [[rng.randint(1, W * step - 1) / float(step), rng.randint(1, H * step - 1) / float(step)]] + trs[0] + [[rng.randint(1, W * step - 1) / float(step), rng.randint(1, H * step - 1) / float(step)]]
    how = rng.choice(['collection', 'collection', 'network', 'incremental'])
    if how == 'collection' and rng.random() < 0.2:
        # a track reduced to one fix among the others (it has no segment to register): the features after it keep their own numbers
        trs.insert(rng.randint(1, len(trs)), [[rng.randint(0, W * step) / float(step), rng.randint(0, H * step) / float(step)]])
        ntr += 1
    extra = {'how': how, 'first': rng.randint(1, ntr)}
    if decimal:
        return {**extra, 'W': W, 'H': H, 'tracks': trs, 'margin': rng.choice([0.0, 0.05, 0.25, 0.1]), 'res': [rng.choice([0.5, 1.0, 0.7, 0.3, 2.0]), rng.choice([0.5, 1.0, 0.7, 0.3, 2.0])]}
    return {**extra, 'W': W, 'H': H, 'tracks': trs, 'margin': rng.choice([0.0, 0.0, 0.5, 0.5]), 'res': [rng.choice([0.5, 1.0, 2.0]), rng.choice([0.5, 1.0, 2.0])]}


def build_index(case):
    """the index over the features of the case: a track collection, a network built in one go, or a network that already carries
    its index when the last edges are added (addEdge then registers them itself)"""
    from tracklib.core import TrackCollection, Network, Node, Edge
    from tracklib.core.spatial_index import SpatialIndex
    how = case.get('how', 'collection')
    if how == 'collection':
        return SpatialIndex(TrackCollection([mk(t) for t in case['tracks']]), tuple(case['res']), case['margin'], verbose=False)
    net = Network()
    if how == 'rebuild':
        # a network indexed with the default grid, whose edge geometries are then replaced (each edge was a straight chord between its ends), indexed again the same way:
        # the second index is the one queried
        chords = [[t[0], t[-1]] for t in case['tracks']]
        ex = [p[0] for c in chords for p in c]; ey = [p[1] for c in chords for p in c]
        if max(ex) == min(ex) or max(ey) == min(ey):
            chords = case['tracks']                 # the index constructor needs a positive extent in both directions: the first index is then built on the final geometries
        for k, t in enumerate(chords):
            tr = mk(t)
            net.addEdge(Edge(k + 1, tr), Node('s%d' % k, tr.getFirstObs().position), Node('t%d' % k, tr.getLastObs().position))
        net.createSpatialIndex(verbose=False)
        for k, t in enumerate(case['tracks']):
            net.EDGES[net.getEdgeId(k)].geom = mk(t)
        net.createSpatialIndex(verbose=False)
        return net.spatial_index
    def add(k):
        tr = mk(case['tracks'][k])
        net.addEdge(Edge(k + 1, tr), Node('s%d' % k, tr.getFirstObs().position), Node('t%d' % k, tr.getLastObs().position))
    first = len(case['tracks']) if how == 'network' else case.get('first', 1)        # track 0 spans the bounding box
    for k in range(first):
        add(k)
    si = SpatialIndex(net, tuple(case['res']), case['margin'], verbose=False)
    net.spatial_index = si
    for k in range(first, len(case['tracks'])):
        add(k)
    return si


# ------------------------------------------------------------------ stream build

def gen_build(rng, n, tier):
    out = [gen_setup(rng) for _ in range(n)]
    for _ in range(max(2, n // 100)):
        # an explicit resolution fine enough for more than a hundred rows or columns (the default grid is 100 x 100 at most), and a long steep
        # feature drifting from one column / row to the next
        tall = rng.random() < 0.6
        W, H = (2, 6) if tall else (6, 2)
        fine = rng.choice([0.03125, 0.046875])
        res = [1.0, fine] if tall else [fine, 1.0]
        steep = [[0.75, 5.96875], [1.25, 0.03125]] if tall else [[5.96875, 0.75], [0.03125, 1.25]]
        tracks = [[[0.0, 0.0], [float(W), float(H)]], steep, [[0.5, 0.5], [1.5, 1.5]]]
        out.append({'how': rng.choice(['collection', 'network']), 'first': 1, 'W': W, 'H': H, 'tracks': tracks, 'margin': 0.0, 'res': res})
    return out


def run_build(case):
    si = build_index(case)
    g = [[[i, j], [int(v) for v in si.grid[i][j]]] for i in range(si.csize) for j in range(si.lsize) if si.grid[i][j]]
    return {'grid': g, 'csize': si.csize, 'lsize': si.lsize, 'dX': si.dX, 'dY': si.dY}


def feats_lit(case):
    return coq_list(coq_list('(%s,%s)' % (q(x), q(y)) for x, y in t) for t in case['tracks'])


def coq_build(case, obs):
    if 'exc' in obs:
        return None
    exp = coq_list('((%d,%d)%%Z,%s%%nat)' % (c[0], c[1], coq_list(map(str, l))) for c, l in obs['grid'])
    return '(%s, %s, %s, %s, %s, %s, %s, (%d)%%Z, (%d)%%Z)' % (q(case['W']), q(case['H']), q(case['margin']), q(case['res'][0]), q(case['res'][1]), feats_lit(case), exp, obs['csize'], obs['lsize'])


def cell_hits(seg, i, j, closed_x, closed_y):
    """does the closed segment have a point in the footprint [i,i+1) x [j,j+1) (closed on the sides flagged)? exact"""
    (ax, ay), (bx, by) = seg
    t0, t1 = F(0), F(1)
    for p, d, lo, hi in ((ax, bx - ax, F(i), F(i + 1)), (ay, by - ay, F(j), F(j + 1))):
        if d == 0:
            if p < lo or p > hi:
                return False
        else:
            ta, tb = (lo - p) / d, (hi - p) / d
            if ta > tb:
                ta, tb = tb, ta
            t0, t1 = max(t0, ta), min(t1, tb)
            if t0 > t1:
                return False
    for t in (t0, (t0 + t1) / 2, t1):
        x = ax + t * (bx - ax); y = ay + t * (by - ay)
        if (x < i + 1 or closed_x) and (y < j + 1 or closed_y):
            return True
    return False


def grid_coords(case, obs):
    W, H, m = F(case['W']), F(case['H']), F(case['margin'])
    xmin = -m * W; ymin = -m * H
    ax = W + 2 * m * W; ay = H + 2 * m * H
    cs, ls = obs['csize'], obs['lsize']
    dX, dY = ax / cs, ay / ls
    return (lambda x, y: ((F(x) - xmin) / dX, (F(y) - ymin) / dY)), cs, ls, dX, dY


def oracle_build(case, obs):
    if 'exc' in obs:
        return 'SpatialIndex construction raised %s (margin %r, resolution %r, tracks %r)' % (obs['exc'], case['margin'], case['res'], case['tracks'])
    tog, cs, ls, dX, dY = grid_coords(case, obs)
    got = {(c[0], c[1]): set(l) for c, l in obs['grid']}
    for k, t in enumerate(case['tracks']):
        for a, b in zip(t, t[1:]):
            A, B = tog(*a), tog(*b)
            for i in range(cs):
                for j in range(ls):
                    if cell_hits((A, B), i, j, i == cs - 1, j == ls - 1) and k not in got.get((i, j), set()):
                        return 'feature %d has the segment %r-%r passing through cell (%d, %d) but is not registered there (registered: %r)' % (k, a, b, i, j, sorted(got.get((i, j), [])))
    return None


def finding_build(case, obs, why):
    return None


def shrink_build(case):
    # every candidate keeps the two vertices of feature 0 that span the bounding box [0,W] x [0,H] the case declares
    for c in _shrink_build(case):
        t0 = c['tracks'][0]
        if [0.0, 0.0] in t0 and [float(case['W']), float(case['H'])] in t0:
            yield c


def _shrink_build(case):
    ts = case['tracks']
    for i in range(1, len(ts)):
        c = dict(case); c['tracks'] = ts[:i] + ts[i + 1:]
        yield c
    for i, t in enumerate(ts):
        for k in range(len(t)):
            if len(t) > 2:
                c = dict(case); c['tracks'] = ts[:i] + [t[:k] + t[k + 1:]] + ts[i + 1:]
                yield c


S_BUILD = Stream(
    name='build', budget={'quick': 300, 'thorough': 6000},
    rule=('collections of 1..4 tracks of 2..5 vertices on a quarter-integer lattice (vertices on cell borders, corners and the outer border), margins {0, 1/2}, resolutions {1/2, 1, 2} square and not; '
          'observed: every non-empty grid[i][j], csize, lsize; exact oracle: every cell a segment passes through must list the feature; non-trivial = at least 2 tracks'),
    imports=IMPORTS, case_type='Q * Q * Q * Q * Q * list (list (Q*Q)) * list ((Z*Z) * list nat) * Z * Z',
    check_def=COMMON + '''Definition ok (c : Q * Q * Q * Q * Q * list (list (Q*Q)) * list ((Z*Z) * list nat) * Z * Z) : bool :=
  let '(W, H, m, rx, ry, feats, e, cs, ls) := c in
  match make 0 W 0 H m rx ry with
  | Err _ => false
  | Ok ix => Z.eqb (csize ix) cs && Z.eqb (lsize ix) ls &&
     match build ix feats with
     | Ok g => forallb (fun ce => leqb (lookup g (fst ce)) (snd ce)) e && forallb (fun cg => existsb (fun ce => cell_eqb (fst ce) (fst cg)) e) g
     | Err _ => false end end.''',
    generate=gen_build, run_impl=run_build, coq_case=coq_build, oracle=oracle_build, shrink=shrink_build, finding_key=finding_build,
    nontrivial=lambda c, o: len(c['tracks']) >= 2, klass=lambda c, o: 'margin=%s,%s' % (c['margin'], c.get('how')))


# ------------------------------------------------------------------ stream query

def gen_query(rng, n, tier):
    out = []
    for _ in range(n):
        c = gen_setup(rng)
        W, H = c['W'], c['H']
        pt = lambda: [rng.randint(0, W * 4) / 4.0, rng.randint(0, H * 4) / 4.0]
        c['points'] = [pt() for _ in range(4)] + [[0.0, 0.0], [float(W), float(H)], [float(W), 0.0]]
        c['segs'] = [[pt(), pt()] for _ in range(3)]
        c['qtrack'] = [pt() for _ in range(rng.randint(2, 4))]
        c['units'] = [rng.choice([0, 1, 2, 3]) for _ in c['points']]
        c['dists'] = [rng.choice([0, 0.25, 0.5, 1, 1.5, 2, 3.75]) for _ in range(3)]
        c['probe'] = rng.random() < 0.3
        if rng.random() < 0.3:
            # a feature that goes twice from one cell to the diagonally opposite one, once on each side of their common corner (a hairpin road): the two crossings go
            # through different intermediate cells; queries in both of them
            m = c['margin']; ax = W + 2 * m * W; ay = H + 2 * m * H
            cs = int(ax / c['res'][0]); ls = int(ay / c['res'][1])
            if cs >= 2 and ls >= 2:
                dX = ax / cs; dY = ay / ls
                i = rng.randrange(1, cs); j = rng.randrange(1, ls)
                Cx = -m * W + i * dX; Cy = -m * H + j * dY
                hair = [[Cx - 0.2 * dX, Cy - 0.8 * dY], [Cx + 0.8 * dX, Cy + 0.2 * dY], [Cx + 0.5 * dX, Cy - 0.5 * dY], [Cx - 0.8 * dX, Cy - 0.2 * dY], [Cx + 0.2 * dX, Cy + 0.8 * dY]]
                if all(0 <= px <= W and 0 <= py <= H for px, py in hair):
                    if rng.random() < 0.5:                   # the mirror image (the second crossing below the corner, the way back above it)
                        hair = [[Cx + (py - Cy) * dX / dY, Cy + (px - Cx) * dY / dX] for px, py in hair]
                    c['tracks'].append(hair)
                    c['points'] = c['points'] + [[Cx + 0.5 * dX, Cy - 0.5 * dY], [Cx - 0.5 * dX, Cy + 0.5 * dY]]
                    c['units'] = c['units'] + [0, 1]
        out.append(c)
    return out


def run_query(case):
    from tracklib.core import ENUCoords
    si = build_index(case)
    E = lambda p: ENUCoords(p[0], p[1], 0)
    if case.get('probe'):
        # one probe object swept across the map: moved in place (setX / setY) between queries instead of a fresh coordinate per query
        probe = ENUCoords(0.0, 0.0, 0)
        def EP(p, probe=probe):
            probe.setX(p[0]); probe.setY(p[1])
            return probe
    else:
        EP = E
    return {'csize': si.csize, 'lsize': si.lsize,
            'pt': [[int(v) for v in si.request(EP(p))] for p in case['points']],
            'seg': [[int(v) for v in si.request([E(a), E(b)])] for a, b in case['segs']],
            'trk': [int(v) for v in si.request(mk(case['qtrack']))],
            'nb': [sorted(int(v) for v in si.neighborhood(E(p), unit=u)) for p, u in zip(case['points'], case['units'])],
            'units': [int(si.groundDistanceToUnits(d)) for d in case['dists']]}


def nl(l):
    return coq_list(map(str, l)) + '%nat'


def coq_query(case, obs):
    if 'exc' in obs:
        return None
    P = lambda p: '(%s,%s)' % (q(p[0]), q(p[1]))
    pts = coq_list('(%s, %s, %s, %s)' % (P(p), nl(r), zlit(u), nl(nb)) for p, r, u, nb in zip(case['points'], obs['pt'], case['units'], obs['nb']))
    segs = coq_list('(%s, %s, %s)' % (P(a), P(b), nl(r)) for (a, b), r in zip(case['segs'], obs['seg']))
    ds = coq_list('(%s, %s)' % (q(d), zlit(u)) for d, u in zip(case['dists'], obs['units']))
    return '(%s, %s, %s, %s, %s, %s, %s, %s, (%s, %s), %s)' % (q(case['W']), q(case['H']), q(case['margin']), q(case['res'][0]), q(case['res'][1]), feats_lit(case),
                                                       pts, segs, coq_list(P(p) for p in case['qtrack']), nl(obs['trk']), ds)


def oracle_query(case, obs):
    if 'exc' in obs:
        return 'SpatialIndex query raised %s (margin %r, resolution %r)' % (obs['exc'], case['margin'], case['res'])
    tog, cs, ls, dX, dY = grid_coords(case, obs)
    segs = [(k, tog(*a), tog(*b), a, b) for k, t in enumerate(case['tracks']) for a, b in zip(t, t[1:])]
    def cell_of(p):
        gx, gy = tog(*p)
        return min(math.floor(gx), cs - 1), min(math.floor(gy), ls - 1)
    for p, r in zip(case['points'], obs['pt']):
        i, j = cell_of(p)
        for k, A, B, a, b in segs:
            if cell_hits((A, B), i, j, i == cs - 1, j == ls - 1) and k not in r:
                return 'request(%r) = %r omits feature %d whose segment %r-%r passes through the cell (%d, %d) containing the point' % (p, r, k, a, b, i, j)
    # ground distance -> units -> neighbourhood: every feature with a point within d of the query point
    for d, u in zip(case['dists'], obs['units']):
        if u < 0:
            return 'groundDistanceToUnits(%r) = %r' % (d, u)
    return None


S_QUERY = Stream(
    name='query', budget={'quick': 200, 'thorough': 5000},
    rule=('set-ups as in stream build; 7 query points (lattice points, the corners of the extent), 3 query segments, one query track, neighbourhood units 0..3, ground distances 0..3.75; '
          'observed: request(coord), request([c1, c2]), request(track), neighborhood(coord, unit=u) as sets, groundDistanceToUnits(d)'),
    imports=IMPORTS,
    case_type='Q * Q * Q * Q * Q * list (list (Q*Q)) * list ((Q*Q) * list nat * Z * list nat) * list ((Q*Q) * (Q*Q) * list nat) * (list (Q*Q) * list nat) * list (Q * Z)',
    check_def=COMMON + '''Definition ok (c : Q * Q * Q * Q * Q * list (list (Q*Q)) * list ((Q*Q) * list nat * Z * list nat) * list ((Q*Q) * (Q*Q) * list nat) * (list (Q*Q) * list nat) * list (Q * Z)) : bool :=
  let '(W, H, m, rx, ry, feats, pts, segs, trk, ds) := c in
  match make 0 W 0 H m rx ry with
  | Err _ => false
  | Ok ix =>
     match build ix feats with
     | Err _ => false
     | Ok g =>
        forallb (fun '(p, r, u, nb) => oeq (request_point ix g (fst p) (snd p)) (Some r) && oeq (neighborhood_point ix g (fst p) (snd p) u) (Some nb)) pts &&
        forallb (fun '(a, b, r) => match request_segment ix g a b with Some l => leqb l r | None => false end) segs &&
        (match request_track ix g (fst trk) with Some l => leqb l (snd trk) | None => false end) &&
        forallb (fun '(d, u) => Z.eqb (units ix d) u) ds
     end end.''',
    generate=gen_query, run_impl=run_query, coq_case=coq_query, oracle=oracle_query, shrink=shrink_build,
    nontrivial=lambda c, o: len(c['tracks']) >= 2, klass=lambda c, o: 'margin=%s,%s' % (c['margin'], c.get('how')))


# ------------------------------------------------------------------ stream neighbourhood (end to end, oracle only; dyadic and decimal set-ups)

def gen_neigh(rng, n, tier):
    out = []
    for k in range(n):
        c = gen_setup(rng, decimal=(k % 2 == 1))
        W, H = c['W'], c['H']
        step = 10 if k % 2 == 1 else 4
        c['queries'] = [[[rng.randint(0, W * step) / float(step), rng.randint(0, H * step) / float(step)], rng.choice([0, 0.25, 0.5, 1, 1.3, 2, 3.75])] for _ in range(6)]
        if rng.random() < 0.5:
            # a short feature inside one cell and queries placed diagonally from it, just inside the distance asked: the feature sits in a far corner cell of the block searched
            x = rng.randint(1, W * step - 2) / float(step); y = rng.randint(1, H * step - 2) / float(step)
            c['tracks'].append([[x, y], [x + 1.0 / step, y]])
            for _ in range(12):
                d = rng.choice([1.3, 1.5, 2, 3, 3.75, 2.9, 1.45, 2.9 * min(c['res']), 2.95 * max(c['res']), 5.9 * min(c['res']), 6.9 * min(c['res'])])
                a = math.floor(d / math.sqrt(2) * 0.999 * step) / float(step)
                qx = x + rng.choice([-1, 1]) * a; qy = y + rng.choice([-1, 1]) * a
                if 0 <= qx <= W and 0 <= qy <= H:
                    c['queries'].append([[qx, qy], d])
        if c['margin'] == 0 and c['res'][0] == c['res'][1] and rng.random() < 0.6:
            # the same with the query near the far corner of its cell and the feature 2.1 cells away on both axes: three cells apart, closer than 3 cell sides
            cell = c['res'][0]
            i = rng.randint(0, max(0, int(W / cell) - 4)); j = rng.randint(0, max(0, int(H / cell) - 4))
            qx, qy = (i + 0.9) * cell, (j + 0.9) * cell
            fx, fy = qx + 2.1 * cell, qy + 2.1 * cell
            if fx + 0.05 * cell <= W and fy <= H:
                c['tracks'].append([[fx, fy], [fx + 0.05 * cell, fy]])
                c['queries'].append([[qx, qy], 2.985 * cell])
        if rng.random() < 0.2:
            c['how'] = 'rebuild'; c['margin'] = 0.05
        out.append(c)
    return out


def run_neigh(case):
    from tracklib.core import ENUCoords
    si = build_index(case)
    res = []
    for p, d in case['queries']:
        u = si.groundDistanceToUnits(d)
        res.append({'u': int(u), 'nb': sorted(int(v) for v in si.neighborhood(ENUCoords(p[0], p[1], 0), unit=u)),
                    'pt': sorted(int(v) for v in si.request(ENUCoords(p[0], p[1], 0)))})
    return {'res': res, 'csize': si.csize, 'lsize': si.lsize}


def seg_point_dist2(a, b, p):
    ax, ay = map(F, a); bx, by = map(F, b); px, py = map(F, p)
    L2 = (bx - ax) ** 2 + (by - ay) ** 2
    t = F(0) if L2 == 0 else max(F(0), min(F(1), ((px - ax) * (bx - ax) + (py - ay) * (by - ay)) / L2))
    return (px - ax - t * (bx - ax)) ** 2 + (py - ay - t * (by - ay)) ** 2


def oracle_neigh(case, obs):
    if 'exc' in obs:
        return 'SpatialIndex construction / neighborhood raised %s (margin %r, resolution %r, tracks %r)' % (obs['exc'], case['margin'], case['res'], case['tracks'])
    for (p, d), r in zip(case['queries'], obs['res']):
        for k, t in enumerate(case['tracks']):
            near = any(seg_point_dist2(a, b, p) <= F(d) ** 2 for a, b in zip(t, t[1:]))
            if near and k not in r['nb']:
                return 'neighborhood(%r, unit=groundDistanceToUnits(%r)=%d) = %r omits feature %d which has a point within %r of the query (resolution %r, margin %r)' % (
                    p, d, r['u'], r['nb'], k, d, case['res'], case['margin'])
    return None


def finding_neigh(case, obs, why):
    return None


S_NEIGH = Stream(
    name='neighbourhood', budget={'quick': 300, 'thorough': 8000},
    rule=('end to end, oracle only: dyadic set-ups and decimal (non-dyadic: tenth-integer coordinates, resolutions 0.3 / 0.7, margins 0.05 / 0.1) set-ups alternate; 6 query points with a ground '
          'distance each; every feature with a point within d of the query (exact rational distance to its segments) must be in neighborhood(q, unit=groundDistanceToUnits(d))'),
    imports=IMPORTS, case_type='unit', check_def='Definition ok (c : unit) : bool := true.',
    generate=gen_neigh, run_impl=run_neigh, coq_case=lambda c, o: None, oracle=oracle_neigh, shrink=shrink_build, finding_key=finding_neigh,
    nontrivial=lambda c, o: len(c['tracks']) >= 2, klass=lambda c, o: 'res=%s' % c['res'])

STREAMS = [S_BUILD, S_QUERY, S_NEIGH]
