"""C04 - sequence operations select exactly the designated observations"""
from core import Stream, q, coq_list, zlit, coq_bool

PROP = 'C04'
THEOREM_FILE = 'Props/C04.v'
NOTES = ['np.argsort is abstracted by its contract: the check verifies inside Coq that the sorted track is a permutation of the input, in non-decreasing time order, each observation keeping its own values',
         'int(log(N)/log(2)) is modelled by the exact floor of log2 N (sizes up to 40 in the tie; the fix-up loops make the result independent of the starting step)',
         'timestamps are whole seconds or milliseconds (C03 covers the comparison operators they go through)']
IMPORTS = 'From Coq Require Import List Arith ZArith Bool Sorted Permutation.\nImport ListNotations.\nFrom TL Require Import Model.SeqOps Model.SeqInsert.'


def mk(ts, ids=None, feat=True):
    from tracklib.core import ObsTime, ENUCoords, Obs, Track
    ids = ids if ids is not None else list(range(len(ts)))
    obs = []
    for i, t in zip(ids, ts):
        if t < 0:                                   # an instant before 1970 (archive data), built from its calendar fields
            import datetime
            d = datetime.datetime(1970, 1, 1) + datetime.timedelta(seconds=t // 1000)
            ot = ObsTime(d.year, d.month, d.day, d.hour, d.minute, d.second, 0)
        else:
            ot = ObsTime.readUnixTime(t // 1000)
        ot.ms = t % 1000
        obs.append(Obs(ENUCoords(float(i), 0, 0), ot))
    tr = Track(obs)
    if feat and obs:
        tr.createAnalyticalFeature('f', [100.0 + i for i in ids])
    return tr


def ids_of(tr):
    return [int(tr.getObs(i).position.getX()) for i in range(tr.size())]


def tms(tr):
    import datetime
    out = []
    for i in range(tr.size()):
        t = tr.getObs(i).timestamp
        out.append(int((datetime.datetime(t.year, t.month, t.day, t.hour, t.min, t.sec) - datetime.datetime(1970, 1, 1)).total_seconds()) * 1000 + int(t.ms))
    return out


# ------------------------------------------------------------------ insertion

def gen_ins(rng, n, tier):
    out = []
    for _ in range(n):
        k = rng.choice(list(range(0, 18)) + [31, 32, 33, 40])
        ts = sorted(rng.randint(0, 12) * 10000 + rng.choice([0, 0, 500]) for _ in range(k))
        t = rng.randint(0, 13) * 10000 + rng.choice([0, 0, 500, 250])
        if ts and rng.random() < 0.3:
            t = rng.choice(ts)
        out.append({'ts': ts, 't': t})
    return out


def run_ins(case):
    from tracklib.core import ObsTime, ENUCoords, Obs
    tr = mk(case['ts'])
    ot = ObsTime.readUnixTime(case['t'] // 1000)
    ot.ms = case['t'] % 1000
    idx = tr._Track__getInsertionIndex(ot)
    tr.insertObs(Obs(ENUCoords(999.0, 0, 0), ot))
    return {'idx': int(idx), 'ids': ids_of(tr), 'ts': tms(tr)}


def coq_ins(case, obs):
    if 'exc' in obs:
        return None
    L = lambda l: coq_list('(%d)%%Z' % v for v in l)
    return '(%s, (%d)%%Z, (%d)%%Z, %s)' % (L(case['ts']), case['t'], obs['idx'], L(obs['ts']))


def oracle_ins(case, obs):
    if 'exc' in obs:
        return 'insertObs raised %s' % obs['exc']
    ts = obs['ts']
    if any(a > b for a, b in zip(ts, ts[1:])):
        return 'after inserting t=%d into the sorted track %r the timestamps are %r' % (case['t'], case['ts'], ts)
    if sorted(obs['ids']) != sorted(list(range(len(case['ts']))) + [999]):
        return 'observations after insertion: %r' % obs['ids']
    rest = [i for i in obs['ids'] if i != 999]
    if rest != list(range(len(case['ts']))):
        return 'the original observations were reordered: %r' % obs['ids']
    return None


S_INS = Stream(
    name='insertion', budget={'quick': 1500, 'thorough': 40000},
    rule=('time-sorted tracks of every size 0..17 and 31, 32, 33, 40 with repeated timestamps (half-second parts), an instant before / between / equal to / after the fixes; '
          'observed: the insertion index and the track after insertObs(obs) without an index; non-trivial = at least 2 fixes'),
    imports=IMPORTS, case_type='list Z * Z * Z * list Z',
    check_def='''Fixpoint zeq (a b : list Z) : bool := match a, b with [], [] => true | x :: r, y :: s => Z.eqb x y && zeq r s | _, _ => false end.
Definition ok (c : list Z * Z * Z * list Z) : bool := let '(l, t, k, after) := c in
  match insertion_index l t with Some x => Z.eqb x k && zeq (insert_at Z l (Z.to_nat x) t) after | None => false end.''',
    generate=gen_ins, run_impl=run_ins, coq_case=coq_ins, oracle=oracle_ins,
    nontrivial=lambda c, o: len(c['ts']) >= 2, klass=lambda c, o: 'n=%d' % len(c['ts']))


# ------------------------------------------------------------------ operators

def gen_ops(rng, n, tier):
    out = []
    for _ in range(n):
        k = rng.randint(0, 10)
        ts = [1000 * i for i in range(k)]
        op = rng.choice(['gt', 'lt', 'ex', 'mod', 'pat', 'rm', 'add', 'span'])
        c = {'n': k, 'op': op}
        if op in ('gt', 'lt'):
            c['a'] = rng.randint(0, k + 3)
        elif op == 'ex':
            if k == 0:
                continue
            i = rng.randint(0, k - 1); c['i'] = i; c['j'] = rng.randint(i, k - 1)
            if rng.random() < 0.3:                  # indices counted from the end, as everywhere else in the library (track[-1], getObs(-1)): "the last m observations"
                c['i'] -= k; c['j'] -= k
        elif op == 'mod':
            c['s'] = rng.randint(1, 5)
        elif op == 'pat':
            c['pat'] = [rng.random() < 0.5 for _ in range(rng.randint(1, 4))]; c['patint'] = rng.choice([None, None, 'int', 'mixed'])
        elif op == 'rm':
            if k == 0:
                continue
            tab = rng.sample(range(k), rng.randint(1, k))
            rng.shuffle(tab)
            c['tab'] = tab
        elif op == 'add':
            c['m'] = rng.randint(0, 5); c['samefeat'] = rng.random() < 0.7
            c['perm'] = rng.random() < 0.3          # the same two feature names on both tracks, created in a different order
        else:
            c['a'] = rng.randint(-1, k + 1) * 1000 + rng.choice([0, 500]); c['b'] = rng.randint(-1, k + 1) * 1000 + rng.choice([0, 500])
            if rng.random() < 0.4:                  # source track not in chronological order (reversed, shuffled, repeated instants): the span selects by instant, whatever the storage order
                order = list(range(k))
                r = rng.random()
                if r < 0.3:
                    order.reverse()
                elif r < 0.8:
                    rng.shuffle(order)
                else:
                    order = [rng.randrange(max(k, 1)) for _ in range(k)]
                c['order'] = order
            if rng.random() < 0.3:
                c['ref'] = rng.choice([2, 3])
        if op in ('rm', 'gt', 'lt', 'ex', 'mod', 'pat') and k >= 2 and rng.random() < 0.25:
            # a track that holds one observation object at several positions: a circuit closed with track.addObs(track.getFirstObs()), two laps of the same fixes.
            # The operators designate POSITIONS: the last m positions hold again the objects of positions again[0..m-1]
            m = rng.randint(1, min(3, k - 1))
            c['again'] = [0] if rng.random() < 0.4 else [rng.randrange(k - m) for _ in range(m)]
            c['k0'] = k - len(c['again'])
        out.append(c)
    return out


def run_ops(case):
    from tracklib.core import ObsTime
    k = case['n']
    t = mk([1000 * i for i in (case.get('order') or range(case.get('k0', k)))])
    for j in case.get('again', []):
        t.addObs(t.getObs(j))
    op = case['op']
    names0 = t.getListAnalyticalFeatures()
    if op == 'gt':
        r = t > case['a']
    elif op == 'lt':
        r = t < case['a']
    elif op == 'ex':
        r = t.extract(case['i'], case['j'])
    elif op == 'mod':
        r = t % case['s']
    elif op == 'pat':
        r = t % ([int(b) for b in case['pat']] if case.get('patint') == 'int' else [(int(b) if i % 2 else bool(b)) for i, b in enumerate(case['pat'])] if case.get('patint') == 'mixed' else list(case['pat']))      # the mask written with booleans, with 0 / 1, or a mix
    elif op == 'rm':
        t.removeObsList(list(case['tab']))
        return {'ids': ids_of(t), 'names': t.getListAnalyticalFeatures(), 'feat': [float(v) for v in t['f']] if t.size() else []}
    elif op == 'add':
        ids2 = [100 + i for i in range(case['m'])]
        if case.get('perm') and k and case['m']:
            t2 = mk([1000 * (100 + i) for i in range(case['m'])], ids=ids2, feat=False)
            t.createAnalyticalFeature('g', [-(100.0 + i) for i in range(k)])                 # t : f, g
            t2.createAnalyticalFeature('g', [-(100.0 + i) for i in ids2])                     # t2: g, f
            t2.createAnalyticalFeature('f', [100.0 + i for i in ids2])
            names0 = t.getListAnalyticalFeatures()
        else:
            t2 = mk([1000 * (100 + i) for i in range(case['m'])], ids=ids2, feat=case['samefeat'])
            if case['m'] and not case['samefeat']:
                t2.createAnalyticalFeature('g', 1.0)
        r = t + t2
    else:
        def T(ms):
            o = ObsTime.readUnixTime(max(ms, 0) // 1000); o.ms = max(ms, 0) % 1000; return o
        if case.get('ref'):
            # the documented one-argument form: the span of a reference track, from its first to its last observation (whatever their order in time)
            from tracklib.core import ENUCoords, Obs, Track
            mids = [T((case['a'] + case['b']) // 2)] if case['ref'] == 3 else []
            ref = Track([Obs(ENUCoords(0, 0, 0), o) for o in [T(case['a'])] + mids + [T(case['b'])]])
            r = t.extractSpanTime(ref)
        else:
            r = t.extractSpanTime(T(case['a']), T(case['b']))
    res = {'ids': ids_of(r), 'src': ids_of(t), 'names': r.getListAnalyticalFeatures(), 'names0': names0}
    if 'f' in res['names'] and r.size():
        res['feat'] = [float(v) for v in r['f']]
    if 'g' in res['names'] and r.size() and op == 'add' and case.get('perm'):
        res['featg'] = [float(v) for v in r['g']]
    return res


def coq_ops(case, obs):
    if 'exc' in obs:
        return None
    k = case['n']
    op = case['op']
    N = lambda l: coq_list(map(str, l)) + '%nat'
    base = '(seq 0 %d)' % k
    if case.get('again'):
        base = N(list(range(case['k0'])) + case['again'])
    if op == 'gt':
        e = 'op_gt nat %s (%d)%%Z' % (base, case['a'])
    elif op == 'lt':
        e = 'op_lt nat %s (%d)%%Z' % (base, case['a'])
    elif op == 'ex':
        e = 'extract nat %s %d %d' % (base, case['i'] % k, case['j'] % k)
    elif op == 'mod':
        e = 'op_mod nat %s %d' % (base, case['s'])
    elif op == 'pat':
        e = 'op_mod_pattern nat %s %s' % (base, coq_list(coq_bool(b) for b in case['pat']))
    elif op == 'rm':
        e = 'remove_ids nat %s %s' % (base, N(sorted(case['tab'])))
    elif op == 'add':
        e = 'op_add nat %s (seq 100 %d)' % (base, case['m'])
    else:
        tm = '(fun i => (1000 * Z.of_nat i)%Z)' if not case.get('order') else '(fun i => (1000 * Z.of_nat (nth i %s 0%%nat))%%Z)' % N(case['order'])
        e = 'span nat %s %s (%d)%%Z (%d)%%Z' % (tm, base, max(case['a'], 0), max(case['b'], 0))
    return '(%s, %s)' % (e, N(obs['ids']))


def oracle_ops(case, obs):
    if 'exc' in obs:
        return 'operator %s raised %s on a track of %d fixes (%r)' % (case['op'], obs['exc'], case['n'], case)
    k = case['n']
    op = case['op']
    src = list(range(k))
    if case.get('again'):
        src = list(range(case['k0'])) + case['again']
    if op == 'gt':
        exp = src[case['a']:] if case['a'] <= k else []
    elif op == 'lt':
        exp = src[:max(0, k - case['a'])]
    elif op == 'ex':
        exp = src[case['i'] % k:case['j'] % k + 1]
    elif op == 'mod':
        exp = src[::case['s']]
    elif op == 'pat':
        exp = [v for i, v in enumerate(src) if case['pat'][i % len(case['pat'])]]
    elif op == 'rm':
        exp = [v for i, v in enumerate(src) if i not in case['tab']]
    elif op == 'add':
        exp = src + [100 + i for i in range(case['m'])]
    else:
        lo, hi = sorted([max(case['a'], 0), max(case['b'], 0)])
        order = case.get('order') or src
        exp = [i for i in src if lo <= 1000 * order[i] <= hi]
    if obs['ids'] != exp:
        return '%s on a track of %d fixes returned observations %r, designated: %r (%r)' % (op, k, obs['ids'], exp, case)
    if op != 'rm' and obs['src'] != src:
        return '%s modified the source track: %r' % (op, obs['src'])
    if op in ('gt', 'lt', 'ex', 'mod', 'pat') and k > 0 and obs['names'] != ['f']:
        return '%s did not carry the feature table over: %r' % (op, obs['names'])
    if 'feat' in obs and obs['feat'] != [100.0 + i for i in obs['ids']]:
        return '%s: feature values %r do not belong to the returned observations %r' % (op, obs['feat'], obs['ids'])
    if 'featg' in obs and obs['featg'] != [-(100.0 + i) for i in obs['ids']]:
        return '%s: values of feature g %r do not belong to the returned observations %r' % (op, obs['featg'], obs['ids'])
    return None


S_OPS = Stream(
    name='operators', budget={'quick': 3000, 'thorough': 60000},
    rule=('tracks of 0..10 fixes with a feature; > n and < n for n in 0..size+3, extract(i, j), % step, % pattern, removeObsList of a shuffled duplicate-free index list, '
          '+ with a second track (same / different feature names), extractSpanTime with bounds in either order and on / off the fixes; observed: identities of the returned observations, '
          'the source track afterwards, feature names and values; non-trivial = at least 3 fixes'),
    imports=IMPORTS, case_type='list nat * list nat',
    check_def='Definition ok (c : list nat * list nat) : bool := if list_eq_dec Nat.eq_dec (fst c) (snd c) then true else false.',
    generate=gen_ops, run_impl=run_ops, coq_case=coq_ops, oracle=oracle_ops,
    nontrivial=lambda c, o: c['n'] >= 3, klass=lambda c, o: c['op'])


# ------------------------------------------------------------------ sort

def gen_sort(rng, n, tier):
    out = []
    for _ in range(n):
        k = rng.randint(0, 12)
        ts = [rng.randint(0, 8) * 1000 + rng.choice([0, 0, 500]) for _ in range(k)]
        if rng.random() < 0.3:                      # instants spread over decades (both sides of 2000, month and year ends) instead of a few seconds
            Y = [0, 86400 * 365, 946684800 - 2, 946684800, 946684801, 1514764800, 1546300800 + 86400 * 58, 1893456000, 3124224000 - 1]
            ts = [rng.choice(Y) * 1000 + rng.choice([0, 0, 500, 1000, 61000]) for _ in range(k)]
        if rng.random() < 0.15:
            # a recording across a month end (or a day end): late evening of the last day, early morning of the next; the time of day decreases while the instant increases
            import datetime as _dt
            y = rng.choice([1999, 2020, 2024, 2031]); m = rng.choice([1, 2, 3, 7, 8, 12, 4])
            first = _dt.datetime(y + (m == 12), m % 12 + 1, 1)
            base = int((first - _dt.datetime(1970, 1, 1)).total_seconds())
            ts = [(base + rng.choice([-20, -3600, -1, 0, 10, 3600 * 5, -86400, 86400 - 5, -86400 - 7])) * 1000 + rng.choice([0, 500]) for _ in range(k)]
        how = rng.choice(['sort', 'sort', 'radix'])
        if how == 'sort' and rng.random() < 0.15:   # archive data: instants before 1970 (the timestamps are calendar dates; sort() orders them as such)
            ts = [rng.choice([-86400 * 365 * 15, -86400 * 365 * 8 - 86400 * 40, -86400 * 300, -1, 0, 86400 * 200]) * 1000 + rng.choice([0, 1000, 500]) for _ in range(k)]
        out.append({'ts': ts, 'how': how})      # Track.sort() or Track.sortRadix(): two public ways to the same contract
    return out


def run_sort(case):
    tr = mk(case['ts'])
    if case.get('how') == 'radix':
        tr.sortRadix()
    else:
        tr.sort()
    return {'ids': ids_of(tr), 'ts': tms(tr), 'feat': [float(v) for v in tr['f']] if tr.size() else [], 'names': tr.getListAnalyticalFeatures()}


def coq_sort(case, obs):
    if 'exc' in obs:
        return None
    return '(%s, %s%%nat)' % (coq_list('(%d)%%Z' % v for v in case['ts']), coq_list(map(str, obs['ids'])))


def oracle_sort(case, obs):
    if 'exc' in obs:
        return 'sort raised %s' % obs['exc']
    k = len(case['ts'])
    if sorted(obs['ids']) != list(range(k)):
        return 'sorted track holds observations %r' % obs['ids']
    if any(a > b for a, b in zip(obs['ts'], obs['ts'][1:])):
        return 'timestamps after sort: %r' % obs['ts']
    if obs['ts'] != [case['ts'][i] for i in obs['ids']] or obs['feat'] != [100.0 + i for i in obs['ids']]:
        return 'an observation lost its own timestamp or feature value: ids %r ts %r feat %r' % (obs['ids'], obs['ts'], obs['feat'])
    return None


S_SORT = Stream(
    name='sort', budget={'quick': 600, 'thorough': 15000},
    rule='tracks of 0..12 fixes in random time order with repeated timestamps; observed after sort(): identities, timestamps and feature values; the contract (permutation, non-decreasing) is checked inside Coq',
    imports=IMPORTS, case_type='list Z * list nat',
    check_def='''Fixpoint nondecr (l : list Z) : bool := match l with a :: ((b :: _) as r) => Z.leb a b && nondecr r | _ => true end.
Fixpoint remove1 (x : nat) (l : list nat) : option (list nat) := match l with [] => None | y :: r => if Nat.eqb x y then Some r else match remove1 x r with Some r' => Some (y :: r') | None => None end end.
Fixpoint permb (a b : list nat) : bool := match a with [] => match b with [] => true | _ => false end | x :: r => match remove1 x b with Some b' => permb r b' | None => false end end.
Definition ok (c : list Z * list nat) : bool := let '(ts, ids) := c in
  permb ids (seq 0 (length ts)) && nondecr (map (fun i => nth i ts 0%Z) ids).''',
    generate=gen_sort, run_impl=run_sort, coq_case=coq_sort, oracle=oracle_sort,
    nontrivial=lambda c, o: len(c['ts']) >= 3, klass=lambda c, o: 'n=%d' % len(c['ts']))

STREAMS = [S_INS, S_OPS, S_SORT]
