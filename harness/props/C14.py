"""C14 - coordinate conversions round-trip and agree with the WGS84 ellipsoid (partial: exact algebra proved, accuracy enclosed pointwise)"""
import math
from fractions import Fraction as F
from core import Stream

PROP = 'C14'
THEOREM_FILE = 'Props/C14.v'
NOTES = ['partial: proved for every input - ENU<->ECEF are exact inverses for every base, the base maps to (0,0,0), geographic->local->geographic adds no error to geographic->ECEF->geographic, '
         'the longitude is recovered exactly, points of the ellipsoid (h = 0) are recovered exactly, the height formula is exact given the latitude, the forward conversion is the textbook closed form; '
         'NOT proved for every input: the 1e-9 degree / 1 mm bound for h != 0 and the Lambert-93 pair (a two-variable enclosure of an error of 1e-13 rad is out of reach of Coq-Interval) - '
         'these are kernel-checked pointwise, at every sampled input, by Coq-Interval enclosures of the real-number model (lemma-mode streams)',
         'the real-number model is not executable by vm_compute; its tie to the code is: at each sampled input Coq-Interval proves |model(input) - value returned by the implementation| <= 1e-6 m / 1e-12 degree',
         'model-tie streams avoid longitudes that are exact multiples of 90 degrees (the sign tests of atan2 sit exactly on a branch boundary of the real-number model there); those inputs are in the oracle-only stream',
         'domain of the property: |lat| < 89.9 degrees, -1000 <= h <= 10000 m']


def r(v):
    f = F(v)
    return '(%d / %d)' % (f.numerator, f.denominator) if f.denominator != 1 else ('(%d)' % f.numerator)


def rand_geo(rng, model=True):
    k = rng.random()
    if k < 0.25:
        lon = rng.choice([-179.999999, 179.999999, 0.000001, -0.000001, 89.999, -90.001, 135.5, -45.25]) if model else rng.choice([180.0, -180.0, 0.0, 90.0, -90.0, 179.9999999999, -179.99999, 179.999995, -179.9999999])
    else:
        lon = rng.uniform(-180, 180)
    k = rng.random()
    if k < 0.2:
        lat = rng.choice([89.9, -89.9, 89.5, -89.0, 0.0, 1e-9, -1e-9, 45.0])
    else:
        lat = rng.uniform(-89.9, 89.9)
    h = rng.choice([0.0, -1000.0, 10000.0, rng.uniform(-1000, 10000), rng.uniform(-1000, 10000)])
    return [lon, lat, h]


def closed_form(lon, lat, h):
    """textbook WGS84: independent of the implementation (e^2 = 2f - f^2, N = a / sqrt(1 - e^2 sin^2))"""
    a = 6378137.0; f = 1 / 298.257223563
    e2 = 2 * f - f * f
    lam = math.radians(lon); phi = math.radians(lat)
    N = a / math.sqrt(1 - e2 * math.sin(phi) ** 2)
    return [(N + h) * math.cos(phi) * math.cos(lam), (N + h) * math.cos(phi) * math.sin(lam), (N * (1 - e2) + h) * math.sin(phi)]


def dlon(a, b):
    d = abs(a - b) % 360.0
    return min(d, 360.0 - d)


IMPORTS = ('From Coq Require Import Reals Lra.\nFrom Interval Require Import Tactic.\n'
           'From TL Require Import Proofs.Atan2 Proofs.Bowring Proofs.CoordsENU Proofs.CoordsDeg Proofs.CoordsTac.\nOpen Scope R_scope.')

# ------------------------------------------------------------------ geographic <-> ECEF

def gen_geo(rng, n, tier):
    return [{'g': rand_geo(rng)} for _ in range(n)]


def run_geo(case):
    from tracklib.core import GeoCoords
    g = GeoCoords(*case['g'])
    P = g.toECEFCoords()
    b = P.toGeoCoords()
    return {'P': [P.X, P.Y, P.Z], 'back': [b.lon, b.lat, b.hgt]}


def coq_geo(case, obs):
    if 'exc' in obs:
        return None
    lon, lat, h = case['g']; X, Y, Z = obs['P']; lo, la, hh = obs['back']
    return '''Lemma forward : let '(x, y, z) := geo_to_ecef_deg (%s, %s, %s) in Rabs (x - %s) <= 1/1000000 /\\ Rabs (y - %s) <= 1/1000000 /\\ Rabs (z - %s) <= 1/1000000.
Proof. unfold geo_to_ecef_deg, geo_to_ecef. consts. close3. Qed.
Lemma inverse : let '(lo, la, h) := ecef_to_geo_deg (%s, %s, %s) in Rabs (lo - %s) <= 1/1000000000000 /\\ Rabs (la - %s) <= 1/1000000000000 /\\ Rabs (h - %s) <= 1/100000.
Proof. destruct (ecef_to_geo_deg (%s, %s, %s)) as [[lo la] h] eqn:EG. stage_inv EG. close3. Qed.
(* pointwise theorem about the model: the round trip at this input is within 1e-9 degree and 1 mm *)
Lemma roundtrip : let '(lo, la, h) := ecef_to_geo_deg (geo_to_ecef_deg (%s, %s, %s)) in Rabs (lo - %s) <= 1/1000000000 /\\ Rabs (la - %s) <= 1/1000000000 /\\ Rabs (h - %s) <= 1/1000.
Proof.
  destruct (geo_to_ecef_deg (%s, %s, %s)) as [[X Y] Z] eqn:EP. stage_fwd EP.
  destruct (ecef_to_geo_deg (X, Y, Z)) as [[lo la] h] eqn:EG. stage_inv EG. close3.
Qed.''' % (r(lon), r(lat), r(h), r(X), r(Y), r(Z),
           r(X), r(Y), r(Z), r(lo), r(la), r(hh), r(X), r(Y), r(Z),
           r(lon), r(lat), r(h), r(lon), r(lat), r(h), r(lon), r(lat), r(h))


def oracle_geo(case, obs):
    if 'exc' in obs:
        return 'conversion raised %s' % obs['exc']
    lon, lat, h = case['g']
    cf = closed_form(lon, lat, h)
    for name, a, b in zip('XYZ', obs['P'], cf):
        if not abs(a - b) <= 1e-6:
            return 'toECEFCoords(%r): %s = %r, the closed-form WGS84 formula gives %r' % (case['g'], name, a, b)
    lo, la, hh = obs['back']
    if not (dlon(lo, lon) <= 1e-9 and abs(la - lat) <= 1e-9 and abs(hh - h) <= 1e-3):
        return 'geographic %r -> ECEF -> geographic returns %r' % (case['g'], obs['back'])
    return None


S_GEO = Stream(
    name='geo', mode='lemma', budget={'quick': 24, 'thorough': 400},
    rule=('positions with longitude in (-180, 180) incl. within 1e-6 of the antimeridian and of 0 / +-90, latitude in [-89.9, 89.9] incl. the equator and both limits, height in [-1000, 10000] incl. 0 and both limits; '
          'per input Coq-Interval proves (a) model forward = implementation ECEF to 1e-6 m, (b) model inverse at the implementation ECEF = implementation geographic to 1e-12 degree / 1e-5 m, '
          '(c) the model round trip at that input is within 1e-9 degree / 1 mm; oracle: closed-form WGS84 and round trip of the implementation'),
    imports=IMPORTS, case_type='', check_def='',
    generate=gen_geo, run_impl=run_geo, coq_case=coq_geo, oracle=oracle_geo,
    klass=lambda c, o: 'lat%+d,h%s' % (int(c['g'][1] // 30), 'z' if c['g'][2] == 0 else ('n' if c['g'][2] < 0 else 'p')))


# ------------------------------------------------------------------ local frame

def gen_enu(rng, n, tier):
    out = []
    for _ in range(n):
        base = rand_geo(rng)
        if rng.random() < 0.6:                                               # a point near the base (the usual use) or anywhere on the globe
            g = [base[0] + rng.uniform(-0.5, 0.5), max(-89.9, min(89.9, base[1] + rng.uniform(-0.5, 0.5))), rng.uniform(-1000, 10000)]
            g[0] = max(-179.9999, min(179.9999, g[0]))
        else:
            g = rand_geo(rng)
        out.append({'base': base, 'g': g})
    return out


def run_enu(case):
    from tracklib.core import GeoCoords, ENUCoords, ECEFCoords
    base = GeoCoords(*case['base']); g = GeoCoords(*case['g'])
    p = g.toENUCoords(base)
    b = p.toGeoCoords(base)
    o = GeoCoords(*case['base']).toENUCoords(base)
    P = g.toECEFCoords()
    q2 = P.toENUCoords(base).toECEFCoords(base)
    return {'p': [p.E, p.N, p.U], 'back': [b.lon, b.lat, b.hgt], 'origin': [o.E, o.N, o.U], 'P': [P.X, P.Y, P.Z], 'P2': [q2.X, q2.Y, q2.Z]}


def coq_enu(case, obs):
    if 'exc' in obs:
        return None
    bl, bp, bh = case['base']; lon, lat, h = case['g']; E, N, U = obs['p']; lo, la, hh = obs['back']
    # the rounding of the rotated coordinates (~1e-9 m) moves the longitude by that much divided by the distance to the polar axis: the agreement
    # asked of the longitude is 1e-11 degree at the equator and scales with 1 / cos(latitude) (1e-8 degree at 89.9 degrees)
    lon_den = '1' + '0' * max(6, int(math.floor(11 + math.log10(max(math.cos(math.radians(lat)), 1e-6)))))
    stage_base = '''  destruct (geo_to_ecef_deg (%s, %s, %s)) as [[bX bY] bZ] eqn:EB. stage_fwd EB.
  destruct (ecef_to_geo_deg (bX, bY, bZ)) as [[blon blat] bhgt] eqn:EG. stage_inv EG.''' % (r(bl), r(bp), r(bh))
    return '''Lemma local : let '(e, n, u) := geo_to_enu (%s, %s, %s) (%s, %s, %s) in Rabs (e - %s) <= 1/1000000 /\\ Rabs (n - %s) <= 1/1000000 /\\ Rabs (u - %s) <= 1/1000000.
Proof.
  unfold geo_to_enu, ecef_to_enu_base.
%s
  destruct (geo_to_ecef_deg (%s, %s, %s)) as [[X Y] Z] eqn:EP. stage_fwd EP.
  unfold ecef_to_enu. consts. close3.
Qed.
Lemma local_inverse : let '(lo, la, h) := enu_to_geo (%s, %s, %s) (%s, %s, %s) in Rabs (lo - %s) <= 1/%s /\\ Rabs (la - %s) <= 1/100000000000 /\\ Rabs (h - %s) <= 1/100000.
Proof.
  unfold enu_to_geo, enu_to_ecef_base.
%s
  match goal with |- context [enu_to_ecef ?a1 ?a2 ?a3 ?a4 ?a5 ?a6 ?a7 ?a8] => destruct (enu_to_ecef a1 a2 a3 a4 a5 a6 a7 a8) as [[X Y] Z] eqn:ER end. stage_rot ER.
  destruct (ecef_to_geo_deg (X, Y, Z)) as [[lo la] h] eqn:EI. stage_inv EI. close3.
Qed.''' % (r(bl), r(bp), r(bh), r(lon), r(lat), r(h), r(E), r(N), r(U), stage_base, r(lon), r(lat), r(h),
           r(bl), r(bp), r(bh), r(E), r(N), r(U), r(lo), lon_den, r(la), r(hh), stage_base)


def oracle_enu(case, obs):
    if 'exc' in obs:
        return 'conversion raised %s' % obs['exc']
    lon, lat, h = case['g']; lo, la, hh = obs['back']
    if not (dlon(lo, lon) <= 1e-9 and abs(la - lat) <= 1e-9 and abs(hh - h) <= 1e-3):
        return 'geographic %r -> local (base %r) -> geographic returns %r' % (case['g'], case['base'], obs['back'])
    if not all(abs(v) <= 1e-9 for v in obs['origin']):
        return 'the local coordinates of the base %r itself are %r' % (case['base'], obs['origin'])
    if not all(abs(a - b) <= 1e-3 for a, b in zip(obs['P'], obs['P2'])):
        return 'ECEF %r -> local (base %r) -> ECEF returns %r' % (obs['P'], case['base'], obs['P2'])
    return None


S_ENU = Stream(
    name='enu', mode='lemma', budget={'quick': 16, 'thorough': 300},
    rule=('a base anywhere on the globe (same distribution as the geo stream) and a point within half a degree of it (60%) or anywhere (40%); per input Coq-Interval proves model geo_to_enu = implementation to 1e-6 m '
          'and model enu_to_geo at the implementation local coordinates = implementation geographic; oracle: geographic round trip through the local frame, base -> (0,0,0), ECEF round trip'),
    imports=IMPORTS, case_type='', check_def='',
    generate=gen_enu, run_impl=run_enu, coq_case=coq_enu, oracle=oracle_enu,
    klass=lambda c, o: 'near' if abs(c['g'][0] - c['base'][0]) <= 0.5 and abs(c['g'][1] - c['base'][1]) <= 0.5 else 'far')


# ------------------------------------------------------------------ Lambert-93

LIMPORTS = ('From Coq Require Import Reals Lra.\nFrom Interval Require Import Tactic.\n'
            'From TL Require Import Proofs.CoordsDeg Proofs.Lambert Proofs.LambertDeg.\nOpen Scope R_scope.')


def gen_lamb(rng, n, tier):
    out = []
    for _ in range(n):
        lon = rng.choice([rng.uniform(-5, 9.5), 3.0, 2.3488, -4.75, 9.5])
        lat = rng.choice([rng.uniform(41.5, 51), 46.5, 41.5, 51.0])
        out.append({'g': [lon, lat, rng.choice([0.0, rng.uniform(-100, 4800)])]})
    return out


def run_lamb(case):
    from tracklib.core import GeoCoords
    g = GeoCoords(*case['g'])
    p = g.toProjCoords(2154)
    b = p.toGeoCoords(2154)
    return {'p': [p.getX(), p.getY(), p.getZ()], 'back': [b.lon, b.lat, b.hgt]}


def coq_lamb(case, obs):
    if 'exc' in obs:
        return None
    lon, lat, _ = case['g']; X, Y, _ = obs['p']; lo, la, _ = obs['back']
    inv = '''  unfold from_l93, inv_phi. split.
  - unfold inv_lon. lconsts. interval with (i_prec 90).
  - remember (inv_latiso LXp LYp Ln LC %s %s) as L eqn:HL. symmetry in HL. unfold inv_latiso in HL. lconsts. lencl HL.
    remember (2 * atan (exp L) - PI / 2) as p0 eqn:H0. symmetry in H0. lencl H0.
    cbn [inv_iter]. do 10 stage_step. interval with (i_prec 90).'''
    return '''Lemma forward : let '(x, y) := to_l93 %s %s in Rabs (x - %s) <= 1/1000000 /\\ Rabs (y - %s) <= 1/1000000.
Proof. unfold to_l93, to_lambert, latiso, ratio, Rpower. lconsts. split; interval with (i_prec 90). Qed.
Lemma inverse : let '(lo, la) := from_l93 %s %s in Rabs (lo - %s) <= 1/1000000000000 /\\ Rabs (la - %s) <= 1/1000000000000.
Proof.
%s
Qed.
(* pointwise theorem about the model: forward then inverse at this input is within 1e-9 degree *)
Lemma roundtrip : let '(lo, la) := (let '(X, Y) := to_l93 %s %s in from_l93 X Y) in Rabs (lo - %s) <= 1/1000000000 /\\ Rabs (la - %s) <= 1/1000000000.
Proof.
  destruct (to_l93 %s %s) as [X Y] eqn:EP. unfold to_l93, to_lambert, latiso, ratio, Rpower in EP. lconsts.
  injection EP as HX HY. lencl HX. lencl HY.
  unfold from_l93, inv_phi. split.
  - unfold inv_lon. lconsts. interval with (i_prec 90).
  - remember (inv_latiso LXp LYp Ln LC X Y) as L eqn:HL. symmetry in HL. unfold inv_latiso in HL. lconsts. lencl HL.
    remember (2 * atan (exp L) - PI / 2) as p0 eqn:H0. symmetry in H0. lencl H0.
    cbn [inv_iter]. do 10 stage_step. interval with (i_prec 90).
Qed.''' % (r(lon), r(lat), r(X), r(Y), r(X), r(Y), r(lo), r(la), inv % (r(X), r(Y)), r(lon), r(lat), r(lon), r(lat), r(lon), r(lat))


def oracle_lamb(case, obs):
    if 'exc' in obs:
        return 'Lambert-93 conversion raised %s' % obs['exc']
    lon, lat, h = case['g']; lo, la, hh = obs['back']
    if not (abs(lo - lon) <= 1e-9 and abs(la - lat) <= 1e-9 and hh == h):
        return 'geographic %r -> Lambert-93 %r -> geographic returns %r' % (case['g'], obs['p'], obs['back'])
    return None


S_LAMB = Stream(
    name='lambert', mode='lemma', budget={'quick': 8, 'thorough': 150},
    rule=('positions in metropolitan France (longitude -5..9.5, latitude 41.5..51, incl. the limits and the central meridian 3 E); per input Coq-Interval proves model forward = implementation '
          'easting / northing to 1e-6 m, model inverse (ten staged iterations) at the implementation coordinates = implementation longitude / latitude to 1e-12 degree, and that the model round trip '
          'at that input is within 1e-9 degree; oracle: round trip of the implementation'),
    imports=LIMPORTS, case_type='', check_def='',
    generate=gen_lamb, run_impl=run_lamb, coq_case=coq_lamb, oracle=oracle_lamb, klass=lambda c, o: 'lat%d' % int(c['g'][1] // 3))


# ------------------------------------------------------------------ boundary inputs, Lambert-93, whole tracks (oracle only)

def gen_edge(rng, n, tier):
    out = []
    for _ in range(n):
        k = rng.random()
        if k < 0.5:
            g = rand_geo(rng, model=False); base = rand_geo(rng, model=False)
            r = rng.random()
            if r < 0.12:                            # the point above / below the base (a base taken from the first fix at ground level), or on its meridian / parallel
                g = [base[0], base[1], rng.choice([0.0, 1035.0, -120.5, base[2] + 1.0])]
            elif r < 0.18:
                g = [base[0], g[1], g[2]]
            elif r < 0.24:
                g = [g[0], base[1], g[2]]
            if rng.random() < 0.2:
                # "for any base point": a base high above the ellipsoid (a summit, an airliner, a space station, a GNSS satellite) and a point on the far side of the Earth, near a pole
                base = [base[0], base[1], rng.choice([8848.0, 10000.0, 4.0e5, 2.02e7])]
                g = [((base[0] + 180.0 + rng.uniform(-20, 20)) + 180.0) % 360.0 - 180.0, rng.choice([89.85, -89.85, 89.5, rng.uniform(-89.9, 89.9)]), rng.choice([0.0, rng.uniform(-1000, 10000)])]
            out.append({'kind': 'geo', 'g': g, 'base': base, 'reuse': rng.random() < 0.25})
        elif k < 0.65:
            lon = rng.uniform(-5, 9.5); lat = rng.uniform(41.5, 51); h = rng.choice([0.0, rng.uniform(-100, 4800)])
            out.append({'kind': 'lambert', 'g': [lon, lat, h]})
        elif k < 0.75:                              # whole tracks through Lambert-93, fresh or after a local round trip (the track then already carries a base), or built with base=
            m = rng.randint(1, 4)
            pts = [[rng.uniform(-5, 9.5), rng.uniform(41.5, 51), rng.choice([0.0, rng.uniform(-100, 4800)])] for _ in range(m)]
            out.append({'kind': 'ptrack', 'pts': pts, 'first': rng.choice([None, 'enu', 'ctor']), 'base': [rng.uniform(-5, 9.5), rng.uniform(41.5, 51), 100.0]})
        elif k < 0.8:
            m = rng.randint(1, 4)
            base = rand_geo(rng, model=False)
            pts = [[max(-180.0, min(180.0, base[0] + rng.uniform(-0.2, 0.2))), max(-89.9, min(89.9, base[1] + rng.uniform(-0.2, 0.2))), rng.uniform(-1000, 10000)] for _ in range(m)]
            out.append({'kind': 'xtrack', 'pts': pts, 'base': base, 'via': rng.choice(['geo', 'ecef', 'ecef', 'rec']), 'base2': [max(-180.0, min(180.0, base[0] + rng.uniform(-3, 3))), max(-89.9, min(89.9, base[1] + rng.uniform(-3, 3))), rng.uniform(-100, 1000)]})
        else:
            m = rng.randint(1, 5)
            base = rand_geo(rng, model=False)
            pts = [[max(-180.0, min(180.0, base[0] + rng.uniform(-0.2, 0.2))), max(-89.9, min(89.9, base[1] + rng.uniform(-0.2, 0.2))), rng.uniform(-1000, 10000)] for _ in range(m)]
            becef = rng.random() < 0.3
            if becef and rng.random() < 0.5:
                # "for any base point": a base a couple of kilometres from a pole (not on the axis), the fixes at the edge of the latitude domain
                base = [base[0], rng.choice([89.98, -89.98, 89.97, -89.96]), rng.choice([0.0, 2835.0, 120.0])]
                pts = [[max(-180.0, min(180.0, base[0] + rng.uniform(-30, 30))), math.copysign(89.9 - rng.uniform(0, 0.3), base[1]), rng.uniform(-1000, 10000)] for _ in range(m)]
            out.append({'kind': 'track', 'pts': pts, 'becef': becef, 'base': base if (becef or rng.random() < 0.7) else None,
                        'base2': [max(-180.0, min(180.0, base[0] + rng.uniform(-0.1, 0.1))), max(-89.9, min(89.9, base[1] + rng.uniform(-0.1, 0.1))), rng.uniform(-100, 1000)] if rng.random() < 0.6 else None})
    return out


def run_edge(case):
    from tracklib.core import GeoCoords, ENUCoords, ECEFCoords, Obs, ObsTime, Track
    if case['kind'] == 'geo':
        g = GeoCoords(*case['g']); base = GeoCoords(*case['base'])
        if case.get('reuse'):
            # the same two objects were used before at another height (a 2-D position converted, then draped on a terrain model; a base whose height was corrected):
            # a conversion is a function of the current longitude, latitude and height
            g = GeoCoords(case['g'][0], case['g'][1], case['g'][2] - 1215.0); base = GeoCoords(case['base'][0], case['base'][1], 35.0)
            g.toECEFCoords(); g.toENUCoords(base); base.toECEFCoords(); g.distanceTo(base)
            g.setZ(case['g'][2]); base.setZ(case['base'][2])
        P = g.toECEFCoords(); b = P.toGeoCoords()
        p = g.toENUCoords(base); b2 = p.toGeoCoords(base)
        P3 = g.toENUCoords(base).toECEFCoords(base); b3 = P3.toGeoCoords()           # local -> Earth-centred with the same (geographic) base -> geographic
        o = GeoCoords(*case['base']).toENUCoords(base)
        return {'P': [P.X, P.Y, P.Z], 'back': [b.lon, b.lat, b.hgt], 'back2': [b2.lon, b2.lat, b2.hgt], 'origin': [o.E, o.N, o.U], 'P3': [P3.X, P3.Y, P3.Z], 'back3': [b3.lon, b3.lat, b3.hgt]}
    if case['kind'] == 'lambert':
        g = GeoCoords(*case['g'])
        p = g.toProjCoords(2154)
        b = p.toGeoCoords(2154)
        return {'p': [p.getX(), p.getY(), p.getZ()], 'back': [b.lon, b.lat, b.hgt]}
    pts = case['pts']
    if case['kind'] == 'xtrack':
        # a local track converted back with an explicit base while it still carries another recorded base (from an earlier round trip): the base given wins
        tr = Track([Obs(GeoCoords(*p), ObsTime.readUnixTime(1000 + 10 * i)) for i, p in enumerate(pts)])
        tr.toENUCoords(GeoCoords(*case['base'])); tr.toGeoCoords()
        b2 = GeoCoords(*case['base2'])
        for i, p in enumerate(pts):
            tr.getObs(i).position = GeoCoords(*p).toENUCoords(b2)
        if case.get('via') == 'ecef':              # ... to Earth-centred coordinates with the explicit base, and from there to geographic
            tr.toECEFCoords(GeoCoords(*case['base2'])); tr.toGeoCoords()
        elif case.get('via') == 'rec':             # ... or with no base given: the recorded one is used, and the track is local to it
            for i, p in enumerate(pts):
                tr.getObs(i).position = GeoCoords(*p).toENUCoords(GeoCoords(*case['base']))
            tr.toECEFCoords(); tr.toGeoCoords()
        else:
            tr.toGeoCoords(GeoCoords(*case['base2']))
        return {'geo': [[o.position.getX(), o.position.getY(), o.position.getZ()] for o in tr], 'n': tr.size(), 'srid': tr.getSRID()}
    if case['kind'] == 'ptrack':
        obsl = [Obs(GeoCoords(*p), ObsTime.readUnixTime(1000 + 10 * i)) for i, p in enumerate(pts)]
        tr = Track(obsl, base=GeoCoords(*case['base'])) if case['first'] == 'ctor' else Track(obsl)
        if case['first'] == 'enu':
            tr.toENUCoords(GeoCoords(*case['base'])); tr.toGeoCoords()
        tr.toProjCoords(2154)
        proj = [[o.position.getX(), o.position.getY(), o.position.getZ()] for o in tr]
        expect = [GeoCoords(*[o2 for o2 in p]).toProjCoords(2154) for p in pts]
        rec = tr.base
        tr.toGeoCoords()
        return {'proj': proj, 'expect': [[e.getX(), e.getY(), e.getZ()] for e in expect], 'base': rec if isinstance(rec, (int, str)) else repr(rec),
                'geo': [[o.position.getX(), o.position.getY(), o.position.getZ()] for o in tr], 'n': tr.size()}
    tr = Track([Obs(GeoCoords(*p), ObsTime.readUnixTime(1000 + 10 * i)) for i, p in enumerate(pts)])
    base = GeoCoords(*case['base']) if case['base'] else None
    if base is not None and case.get('becef'):
        base = base.toECEFCoords()                 # the base handed over in Earth-centred coordinates, as the signature allows (the track records it in geographic form)
    tr.toENUCoords(base) if base else tr.toENUCoords()
    used = base if base else GeoCoords(*pts[0])
    expect = [GeoCoords(*p).toENUCoords(used) for p in pts]
    enu = [[o.position.getX(), o.position.getY(), o.position.getZ()] for o in tr]
    srid1 = tr.getSRID()
    if base is not None:                        # the caller goes on using its base object (batch loops do): the track must have recorded a snapshot, not the object
        base.setX(base.getX() + 7.5); base.setY(-base.getY()); base.setZ(base.getZ() + 100.0)
    rec = tr.base
    reb = None
    if case.get('base2'):                       # re-base the local track on a second base (ENU -> ENU), the recorded base must follow
        b2 = GeoCoords(*case['base2'])
        tr.toENUCoords(b2)
        exp2 = [GeoCoords(*p).toENUCoords(b2) for p in pts]
        reb = {'enu': [[o.position.getX(), o.position.getY(), o.position.getZ()] for o in tr], 'expect': [[e.E, e.N, e.U] for e in exp2],
               'base': [tr.base.lon, tr.base.lat, tr.base.hgt] if tr.base is not None else None}
    tr.toGeoCoords()
    geo = [[o.position.getX(), o.position.getY(), o.position.getZ()] for o in tr]
    return {'enu': enu, 'expect': [[e.E, e.N, e.U] for e in expect], 'srid1': srid1, 'srid2': tr.getSRID(), 'base': [rec.lon, rec.lat, rec.hgt] if rec is not None else None,
            'geo': geo, 'times': [o.timestamp.toAbsTime() for o in tr], 'n': tr.size(), 'rebase': reb}


def oracle_edge(case, obs):
    if 'exc' in obs:
        return '%s conversion raised %s' % (case['kind'], obs['exc'])
    if case['kind'] == 'geo':
        lon, lat, h = case['g']
        cf = closed_form(lon, lat, h)
        for name, a, b in zip('XYZ', obs['P'], cf):
            if not abs(a - b) <= 1e-6:
                return 'toECEFCoords(%r): %s = %r, the closed-form WGS84 formula gives %r' % (case['g'], name, a, b)
        for name, a, b in zip('XYZ', obs.get('P3', cf), cf):
            if not abs(a - b) <= 1e-3:
                return 'geographic %r -> local (base %r) -> Earth-centred: %s = %r, the closed-form WGS84 formula gives %r' % (case['g'], case['base'], name, a, b)
        for key, what in (('back', 'ECEF'), ('back2', 'local (base %r)' % case['base']), ('back3', 'local (base %r) -> Earth-centred' % case['base'])):
            if key not in obs:
                continue
            lo, la, hh = obs[key]
            if not (dlon(lo, lon) <= 1e-9 and abs(la - lat) <= 1e-9 and abs(hh - h) <= 1e-3):
                return 'geographic %r -> %s -> geographic returns %r' % (case['g'], what, obs[key])
        if not all(abs(v) <= 1e-9 for v in obs['origin']):
            return 'the local coordinates of the base %r itself are %r' % (case['base'], obs['origin'])
        return None
    if case['kind'] == 'lambert':
        lon, lat, h = case['g']; lo, la, hh = obs['back']
        if not (abs(lo - lon) <= 1e-9 and abs(la - lat) <= 1e-9 and hh == h):
            return 'geographic %r -> Lambert-93 %r -> geographic returns %r' % (case['g'], obs['p'], obs['back'])
        return None
    if case['kind'] == 'xtrack':
        if obs['n'] != len(case['pts']) or obs['srid'] != 'Geo':
            return 'track conversion changed the number of observations or did not produce geographic coordinates (%r)' % obs['srid']
        for p, g in zip(case['pts'], obs['geo']):
            if not (dlon(g[0], p[0]) <= 1e-9 and abs(g[1] - p[1]) <= 1e-9 and abs(g[2] - p[2]) <= 1e-3):
                return 'local track (about %r, recorded base %r) -> geographic with the explicit base returns %r for %r' % (case['base2'], case['base'], g, p)
        return None
    if case['kind'] == 'ptrack':
        if obs['n'] != len(case['pts']):
            return 'track projection changed the number of observations'
        for a, b in zip(obs['proj'], obs['expect']):
            if not all(abs(u - v) <= 1e-3 for u, v in zip(a, b)):
                return 'Track.toProjCoords(2154) gives %r, projecting each position gives %r' % (obs['proj'], obs['expect'])
        if obs['base'] != 2154:
            return 'the projected track (first step: %r) records the base %r, not the projection 2154 it used' % (case['first'], obs['base'])
        for p, g in zip(case['pts'], obs['geo']):
            if not (abs(g[0] - p[0]) <= 1e-9 and abs(g[1] - p[1]) <= 1e-9 and abs(g[2] - p[2]) <= 1e-3):
                return 'track position %r -> Lambert-93 -> geographic (recorded base) returns %r' % (p, g)
        return None
    if obs['n'] != len(case['pts']) or obs['times'] != [1000 + 10 * i for i in range(len(case['pts']))]:
        return 'track conversion changed the observations: %d observations at %r' % (obs['n'], obs['times'])
    if obs['enu'] != obs['expect']:
        return 'Track.toENUCoords gives %r, converting each position gives %r' % (obs['enu'], obs['expect'])
    used = case['base'] if case['base'] else case['pts'][0]
    if obs['base'] is None or not (dlon(obs['base'][0], used[0]) <= 1e-9 and abs(obs['base'][1] - used[1]) <= 1e-9 and abs(obs['base'][2] - used[2]) <= 1e-3):
        return 'Track.toENUCoords with base %r recorded the base %r' % (used, obs['base'])
    if obs.get('rebase'):
        rb = obs['rebase']; b2 = case['base2']
        for a, b in zip(rb['enu'], rb['expect']):
            if not all(abs(u - v) <= 1e-3 for u, v in zip(a, b)):
                return 'track re-based from %r to %r has local coordinates %r, converting each position about the new base gives %r' % (used, b2, rb['enu'], rb['expect'])
        if rb['base'] is None or not (dlon(rb['base'][0], b2[0]) <= 1e-9 and abs(rb['base'][1] - b2[1]) <= 1e-9 and abs(rb['base'][2] - b2[2]) <= 1e-3):
            return 'track re-based on %r recorded the base %r' % (b2, rb['base'])
    if obs['srid1'] != 'ENU' or obs['srid2'] != 'Geo':
        return 'coordinate systems after conversion: %r then %r' % (obs['srid1'], obs['srid2'])
    for p, g in zip(case['pts'], obs['geo']):
        if not (dlon(g[0], p[0]) <= 1e-9 and abs(g[1] - p[1]) <= 1e-9 and abs(g[2] - p[2]) <= 1e-3):
            return 'track position %r -> local -> geographic (recorded base) returns %r' % (p, g)
    return None


S_EDGE = Stream(
    name='edge', budget={'quick': 400, 'thorough': 20000},
    rule=('oracle only: positions and bases with longitude exactly 180, -180, 0, +-90, latitudes +-89.9 and 0, heights at both limits (50%); Lambert-93 forward / inverse inside metropolitan France (25%); '
          'whole tracks of 1..5 geographic positions converted to the local frame with an explicit base or the default one, re-based on a second base (60% of them) and back (25%): pointwise conversion, recorded base after each step (the base object of the caller is modified in place after the call: the track must hold its own copy), unchanged count and timestamps'),
    imports='From Coq Require Import List.', case_type='unit', check_def='Definition ok (c : unit) : bool := true.',
    generate=gen_edge, run_impl=run_edge, coq_case=lambda c, o: None, oracle=oracle_edge, klass=lambda c, o: c['kind'])

STREAMS = [S_GEO, S_ENU, S_LAMB, S_EDGE]
