"""C09 - Viterbi decoding returns a minimum-cost (maximum-likelihood) state sequence"""
import itertools, math
from core import Stream, q, coq_list

PROP = 'C09'
THEOREM_FILE = 'Props/C09.v'
NOTES = ['the decoded sequence is compared through the abstraction of the theorem (valid sequence whose cost equals the optimum), so another optimal sequence is not a disagreement',
         'log=False: the cost tables are the implementation\'s own Plog/Qlog values (math.log trusted), handed to the model as exact rationals; sums compared to 1e-9',
         'the 1e300 sentinel is modelled by BIG; the hypothesis bounded_from (every partial sum below the sentinel) holds for all generated tables']
IMPORTS = 'From Coq Require Import List Arith QArith Qabs Bool.\nImport ListNotations.\nFrom TL Require Import Model.Hmm.\nOpen Scope Q_scope.'
CHECK = '''Definition close (a b tol : Q) : bool := Qle_bool (Qabs (a - b)) tol.
Fixpoint validb (es : list epoch) (s : list nat) : bool := match es, s with [], [] => true | e :: r, l :: s' => (l <? nstates e)%nat && validb r s' | _, _ => false end.
Definition ok (c : epoch * list epoch * list nat * Q * Q) : bool :=
  let '(e0, es, path, cost, tol) := c in
  let '(mpath, mc) := estimate e0 es in
  validb (e0 :: es) path && close (total_cost e0 es path) mc tol && close cost mc tol
  && validb (e0 :: es) mpath && close (total_cost e0 es mpath) mc tol.'''


def gen_model(rng, T, smax, vals):
    ns = [rng.randint(1, smax) for _ in range(T)]
    p = [[rng.choice(vals) for _ in range(ns[k])] for k in range(T)]
    qq = [None] + [[[rng.choice(vals) for _ in range(ns[k])] for _ in range(ns[k - 1])] for k in range(1, T)]
    c = {'ns': ns, 'p': p, 'q': qq}
    if rng.random() < 0.3:                        # candidate lists with repeated values: the same state listed twice (equal under ==, equal likelihoods)
        dup = []
        for k in ([0] if rng.random() < 0.5 else range(T)):
            if ns[k] >= 2 and rng.random() < 0.8:
                l1, l2 = sorted(rng.sample(range(ns[k]), 2))
                dup.append([k, l1, l2])
                p[k][l2] = p[k][l1]
                if k > 0:
                    for row in qq[k]:
                        row[l2] = row[l1]
                if k + 1 < T:
                    qq[k + 1][l2] = list(qq[k + 1][l1])
        c['dup'] = dup
    c['again'] = rng.random() < 0.3
    if 'dup' not in c and rng.random() < 0.25:
        k = rng.randrange(T)
        c['none'] = [k, rng.randrange(ns[k])]
    # how the observation of an epoch is made up from features of the track before it reaches the observation model: one feature, several, a 2D or 3D position from the
    # first two / three plus the remaining ones; the likelihood tables apply to the observation as documented (a model handed anything else answers from another table)
    c['obsmode'] = rng.choice([None, None, 'list', '2d', '2d+', '2d+', '3d', '3d+'])
    c['wrap'] = rng.choice([None, None, None, 'partial', 'object', 'method'])
    # the reporting level of estimate() (0 silent, 1-2 messages, 3 a progress bar per epoch, which is also the default when the argument is left out):
    # what is reported must not change what is decoded
    c['verbose'] = rng.choice([0, 0, 1, 2, 3, 3, 'omit'])
    return c


def canon(case, k, l):
    for kk, l1, l2 in case.get('dup', []):
        if kk == k and l == l2:
            return l1
    return l


def gen_log(rng, n, tier):
    out = []
    if tier == 'thorough':           # exhaustive: T <= 3, S <= 2, table over {0,1}
        for T in (1, 2, 3):
            for ns in itertools.product((1, 2), repeat=T):
                cells = sum(ns) + sum(ns[k] * ns[k - 1] for k in range(1, T))
                if cells > 11:
                    continue
                for bits in itertools.product((0, 1), repeat=cells):
                    it = iter(bits)
                    p = [[next(it) for _ in range(ns[k])] for k in range(T)]
                    qq = [None] + [[[next(it) for _ in range(ns[k])] for _ in range(ns[k - 1])] for k in range(1, T)]
                    out.append({'ns': list(ns), 'p': p, 'q': qq, 'log': True})
    for _ in range(n):
        c = gen_model(rng, rng.randint(1, 8) if rng.random() < 0.85 else rng.randint(9, 24), 5, rng.choice([[0, 1, 2], [0, 1, 2, 3, 5, 8], [1, 1, 2], [0, 0.5, 0.25, 3], [-1, 0, 1, 2], [-2, -0.5, 0, 3, 0.25]]))     # costs = -log likelihood; negative = an unnormalised likelihood above 1
        c['log'] = True
        out.append(c)
    for _ in range(max(2, n // 100)):
        # large candidate lists with structure: the states that look best so far have expensive transitions onward, the optimal sequence passes
        # through a state ranked far down the list (pruning the list by accumulated cost would lose it)
        n0 = rng.choice([105, 130, 160]); n1 = rng.randint(1, 3); tail = rng.randint(3, 12)
        p0 = [1] * (n0 - tail) + [2] * tail
        rng.shuffle(p0)
        q1 = [[(0 if p0[l] == 2 else rng.choice([40, 50])) + rng.choice([0, 1]) for _ in range(n1)] for l in range(n0)]
        c = {'ns': [n0, n1], 'p': [p0, [rng.choice([0, 1, 2]) for _ in range(n1)]], 'q': [None, q1], 'log': True, 'again': False}
        if rng.random() < 0.5:      # a small epoch in front
            c = {'ns': [2, n0, n1], 'p': [[0, 1], p0, c['p'][1]], 'q': [None, [[rng.choice([0, 1]) for _ in range(n0)] for _ in range(2)], q1], 'log': True, 'again': False}
        out.append(c)
    return out


def gen_lik(rng, n, tier):
    out = []
    for _ in range(n):
        vals = rng.choice([[0.5, 0.25, 0.125, 1.0], [0.1, 0.3, 0.9, 0.0], [1e-5, 0.2, 0.7, 3.5, 0.0]])   # unnormalised, zero likelihoods included
        c = gen_model(rng, rng.randint(1, 7) if rng.random() < 0.85 else rng.randint(8, 22), 4, vals)
        c['log'] = False
        out.append(c)
    return out


def label(k, l):
    return 100 * (k + 1) + 7 * l


def run_impl(case):
    from tracklib.core import ObsTime, ENUCoords, Obs, Track
    from tracklib.algo.dynamics import HMM
    ns, p, qq = case['ns'], case['p'], case['q']
    T = len(ns)
    tr = Track([Obs(ENUCoords(i, 2 * i + 1, 3 + i), ObsTime.readUnixTime(i)) for i in range(T)])
    tr.createAnalyticalFeature('o', 0.0)
    tr.createAnalyticalFeature('o2', [k + 1.5 for k in range(T)])
    om = case.get('obsmode')
    names, mode = {None: ('o', 0), 'list': (['o', 'o2'], 0), '2d': (['x', 'y'], 1), '2d+': (['x', 'y', 'o2'], 1), '3d': (['x', 'y', 'z'], 2), '3d+': (['x', 'y', 'z', 'o2', 'o'], 2),
                   's2d+': (['x', 'y', 'o2', 'o'], 3)}[om]
    def documented(y, k):
        """is y the observation of epoch k as the documentation of estimate() describes it?  (None: the harness itself reading the tables)"""
        if y is None:
            return True
        C = lambda c, z: hasattr(c, 'getX') and (c.getX(), c.getY(), c.getZ()) == (k, 2 * k + 1, z)
        if om is None:
            return y == 0.0
        if om == 'list':
            return list(y) == [0.0, k + 1.5]
        if om == '2d':
            return C(y, 0.0)
        if om == '2d+':
            return isinstance(y, list) and len(y) == 2 and C(y[0], 0.0) and y[1] == k + 1.5
        if om == 's2d+':
            return isinstance(y, list) and len(y) == 3 and C(y[0], 0.0) and y[1:] == [k + 1.5, 0.0]
        if om == '3d':
            return C(y, 3 + k)
        return isinstance(y, list) and len(y) == 3 and C(y[0], 3 + k) and y[1:] == [k + 1.5, 0.0]
    nn = case.get('none')                          # one candidate state may be the label None (an "unmatched / off-road" state)
    idx = lambda k, s: nn[1] if s is None else (s - 100 * (k + 1)) // 7
    lab = lambda k, l: None if (nn and nn[0] == k and nn[1] == l) else label(k, canon(case, k, l))
    sign = -1.0 if case['log'] else 1.0
    fS = lambda t, k: [lab(k, l) for l in range(ns[k])]
    fQ = lambda s1, s2, k, t: sign * float(qq[k + 1][idx(k, s1)][idx(k + 1, s2)])
    fP = lambda s, y, k, t: sign * float(p[k][idx(k, s)] if documented(y, k) else p[k][::-1][idx(k, s)])
    wrap = case.get('wrap')
    if wrap:
        # the three models are "callables": a functools.partial binding the tables, an object with __call__, a bound method are models as good as a plain function
        import functools
        class Model:
            def __init__(self, f): self.f = f
            def __call__(self, *a): return self.f(*a)
            def call(self, *a): return self.f(*a)
        W = {'partial': lambda f: functools.partial(lambda tables, *a: f(*a), None), 'object': Model, 'method': lambda f: Model(f).call}[wrap]
        fS, fQ, fP = W(fS), W(fQ), W(fP)
    hmm = HMM(S=fS, Q=fQ, P=fP, log=case['log'])
    if case.get('again'):                         # the same track object was decoded before, with another model over the same candidate lists
        h0 = HMM(S=lambda t, k: [lab(k, l) for l in range(ns[k])],
                 Q=lambda s1, s2, k, t: sign * 1.0,
                 P=lambda s, y, k, t: sign * float(p[k][::-1][idx(k, s)] if not case.get('dup') else 1.0), log=case['log'])
        h0.estimate(tr, names, mode=mode, verbose=0)
    vb = case.get('verbose', 0)
    if vb == 'omit':
        hmm.estimate(tr, names, mode=mode)
    else:
        hmm.estimate(tr, names, mode=mode, verbose=vb)
    # the cost tables the implementation itself used
    pc = [[-hmm.Plog(lab(k, l), None, k, tr) for l in range(ns[k])] for k in range(T)]
    qc = [None] + [[[-hmm.Qlog(lab(k - 1, m), lab(k, l), k - 1, tr) for l in range(ns[k])] for m in range(ns[k - 1])] for k in range(1, T)]
    if case['log']:          # logarithms supplied directly: the model is given the supplied tables themselves, not what Plog / Qlog made of them
        pc = [[float(p[k][l]) for l in range(ns[k])] for k in range(T)]
        qc = [None] + [[[float(qq[k][m][l]) for l in range(ns[k])] for m in range(ns[k - 1])] for k in range(1, T)]
    return {'inf': [None if x is None else float(x) for x in tr.getAnalyticalFeature('hmm_inference')], 'cost': float(tr['hmm_cost', T - 1]), 'pc': pc, 'qc': qc}


def decode_idx(case, obs):
    out = []
    for k, s in enumerate(obs['inf']):
        if s is None:
            nn = case.get('none')
            if not nn or nn[0] != k:
                return None
            out.append(nn[1]); continue
        l = (s - 100 * (k + 1)) / 7
        if l != int(l) or not (0 <= l < case['ns'][k]):
            return None
        out.append(int(l))
    return out


def _f1(row):
    return 'fun l => nth l %s 0' % coq_list(q(v) for v in row)


def _f2(mat):
    return 'fun m l => nth l (nth m %s []) 0' % coq_list(coq_list(q(v) for v in r) for r in mat)


def coq_case(case, obs):
    if 'exc' in obs:
        return None
    ns = case['ns']
    pc, qc = obs['pc'], obs['qc']
    path = decode_idx(case, obs)
    if path is None:
        path = [10 ** 6] * len(ns)       # not a candidate: validb fails, disagreement reported
    e0 = '{| nstates := %d; pcost := %s; qcost := fun _ _ => 0 |}' % (ns[0], _f1(pc[0]))
    es = coq_list('{| nstates := %d; pcost := %s; qcost := %s |}' % (ns[k], _f1(pc[k]), _f2(qc[k])) for k in range(1, len(ns)))
    tol = '0' if case['log'] else '(1 # 1000000000)'
    return '(%s, %s, %s%%nat, %s, %s)' % (e0, es, coq_list(map(str, path)), q(obs['cost']), tol)


def oracle(case, obs):
    if 'exc' in obs:
        return 'HMM.estimate raised %s' % obs['exc']
    ns, p, qq = case['ns'], case['p'], case['q']
    if case['log']:
        cp = lambda k, l: p[k][l]
        cq = lambda k, m, l: qq[k][m][l]
        tol = 0
    else:
        cp = lambda k, l: -math.log(p[k][l] + 1e-300)
        cq = lambda k, m, l: -math.log(qq[k][m][l] + 1e-300)
        tol = 1e-9
    def cost(s):
        return cp(0, s[0]) + sum(cq(k, s[k - 1], s[k]) + cp(k, s[k]) for k in range(1, len(ns)))
    s = decode_idx(case, obs)
    if s is None or len(s) != len(ns):
        return 'hmm_inference %r is not a sequence of candidate states (candidates of epoch k are %s)' % (obs['inf'], '100(k+1)+7l')
    nseq = 1
    for n in ns:
        nseq *= n
    if nseq <= 200000:
        best = min(cost(c) for c in itertools.product(*[range(n) for n in ns]))      # every candidate sequence
    else:                                               # long tracks: minimum over all sequences by prefix (Bellman's recurrence), an independent implementation
        row = [cp(0, l) for l in range(ns[0])]
        for k in range(1, len(ns)):
            row = [min(row[m] + (cq(k, m, l) + cp(k, l)) for m in range(ns[k - 1])) for l in range(ns[k])]
        best = min(row)
    if abs(cost(s) - best) > tol * max(1, abs(best)) or abs(obs['cost'] - best) > tol * max(1, abs(best)):
        return 'decoded sequence costs %r, recorded cost %r, optimum over all candidate sequences %r' % (cost(s), obs['cost'], best)
    return None


def shrink(case):
    ns = case['ns']
    if len(ns) > 1:          # drop the last epoch
        yield {'ns': ns[:-1], 'p': case['p'][:-1], 'q': case['q'][:-1], 'log': case['log'], 'verbose': case.get('verbose', 0)}
    for k in range(len(ns)):  # drop the last state of epoch k
        if ns[k] > 1:
            c = {'ns': list(ns), 'p': [list(r) for r in case['p']], 'q': [None] + [[list(r) for r in m] for m in case['q'][1:]], 'log': case['log'], 'verbose': case.get('verbose', 0)}
            c['ns'][k] -= 1
            c['p'][k].pop()
            if k >= 1:
                for r in c['q'][k]:
                    r.pop()
            if k + 1 < len(ns):
                c['q'][k + 1].pop()
            yield c


def mk(name, gen, budget, rule):
    return Stream(name=name, budget=budget, rule=rule, imports=IMPORTS, case_type='epoch * list epoch * list nat * Q * Q', check_def=CHECK,
                  generate=gen, run_impl=run_impl, coq_case=coq_case, oracle=oracle, shrink=shrink,
                  nontrivial=lambda c, o: len(c['ns']) >= 2 and max(c['ns']) >= 2,
                  klass=lambda c, o: 'T=%d,S=%d' % (len(c['ns']), max(c['ns'])))


STREAMS = [
    mk('logcost', gen_log, {'quick': 400, 'thorough': 6000},
       'models with 1..8 epochs, 1..5 candidate states per epoch (differing per epoch, states labelled 100(k+1)+7l), costs from small sets so ties are frequent, '
       'supplied with log=True (thorough adds every model with T<=3, S<=2 over {0,1}); observed hmm_inference and hmm_cost; brute-force optimum as oracle; '
       'non-trivial = at least 2 epochs and some epoch with >= 2 states'),
    mk('likelihood', gen_lik, {'quick': 250, 'thorough': 4000},
       'same shape, likelihoods (unnormalised, zeros included) supplied with log=False; the model receives the implementation\'s own -Plog/-Qlog tables'),
]
