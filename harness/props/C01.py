"""C01 - the feature table stays aligned with the observations under any operation history"""
import random
from core import Stream, q, coq_list, isnan
from props import C02

PROP = 'C01'
THEOREM_FILE = 'Props/C01.v'
NOTES = ['operation alphabet: createAnalyticalFeature, removeAnalyticalFeature, track[n]="#DELETE", addListToAF, updateAnalyticalFeature, track[n]=v, track[n,k]=v, addAnalyticalFeature(f, n) / track[n]=f (feature computed by a function), operate(expr); '
         'a call that raises before mutating is part of the history (the error class is compared); an expression that raises ends the history (the cleanup of operate() is skipped then)',
         'list initialisers have the length of the track (a shorter list raises half-way through the creation loop: outside the quantifier)',
         'operator objects (Operator.X applied directly) are covered by C02\'s objects stream; values are exact rationals']
nan = float('nan')
NAMES = ['a', 'b', 'c', 's', 'a', 'b', 'x', 'y', 'idx', 't', 'lbl']
TEXTS = {'bus': 7001.0, 'walk': 7002.0, 'tram': 7003.0}      # text values (as read from a non-numeric CSV column): the model sees a code per distinct text


def enc(l):
    return [TEXTS.get(v, 7900.0 + ord(v[0]) if v else 7900.0) if isinstance(v, str) else (None if isnan(float(v)) else float(v)) for v in l]

ERRC = {'AnalyticalFeatureError': 'AFError', 'KeyError': 'KeyError', 'TypeError': 'TypeError', 'IndexError': 'IndexError', 'ZeroDivisionError': 'ZeroDiv', 'ValueError': 'ValueError'}


APPLY = ['SHIFT_RIGHT', 'SHIFT_RIGHT', 'SHIFT_LEFT', 'SHIFT_CIRCULAR_RIGHT', 'SHIFT_CIRCULAR_LEFT', 'RECTIFIER', ['SHIFT', 2], ['SHIFT', 1], ['SHIFT_REV', 1]]


def applied(opn, col):
    """the documented output of an operator object on a column (None = NaN): y(t) = x(t - k), NaN outside the track; circular variants wrap; RECTIFIER is |x|"""
    n = len(col)
    if opn == 'RECTIFIER':
        return [None if v is None else abs(v) for v in col]
    if opn in ('SHIFT_CIRCULAR_RIGHT', 'SHIFT_CIRCULAR_LEFT'):
        d = 1 if opn == 'SHIFT_CIRCULAR_RIGHT' else -1
        return [col[(i - d) % n] for i in range(n)]
    d = {'SHIFT_RIGHT': 1, 'SHIFT_LEFT': -1}.get(opn) if isinstance(opn, str) else (opn[1] if opn[0] == 'SHIFT' else -opn[1])
    return [col[i - d] if 0 <= i - d < n else None for i in range(n)]


def gen_history(rng, depth, with_expr=True):
    n = rng.randint(1, 4)
    ops = []
    created = []
    # a quarter of the histories use feature names that are close to the reserved ones (pieces of "xyzt", a keyword prefix) instead of a b c s
    ren = rng.choice([{}, {}, {}, {'a': 'xy', 'b': 'zt', 'c': 'xyz', 's': 'yz'}, {'a': 'tx', 'b': 'id', 'c': 'x2', 's': 'yzt'}])
    R = lambda nm: ren.get(nm, nm)
    for _ in range(depth):
        k = rng.choice(['C', 'C', 'R', 'D', 'L', 'U', 'I', 'I', 'O', 'F', 'E', 'E', 'A'] if with_expr else ['C', 'C', 'R', 'D', 'L', 'U', 'I', 'I', 'O', 'F', 'A'])
        nm = R(rng.choice(NAMES))
        if k == 'A':
            # an operator OBJECT applied to a feature that an earlier call tried to create, in place (no output name, or the input's own name) or into another name
            if not created:
                k = 'C'
            else:
                src = rng.choice(created)
                ops.append(['A', src, rng.choice(APPLY), rng.choice([None, None, src, R(rng.choice(['a', 'b', 'c', 's']))])])
                if ops[-1][3]:
                    created.append(ops[-1][3])
                continue
        if k in ('C', 'L', 'U', 'I', 'F') and nm not in ('x', 'y', 'idx', 't', 'lbl'):
            created.append(nm)
        val = lambda: rng.choice([0, 1, 2, 3, -1, 0.5, 4])
        init = ['s', val()] if rng.random() < 0.5 else ['l', [val() for _ in range(n)]]
        if nm == 'lbl' and rng.random() < 0.7:
            init = ['t', rng.choice(sorted(TEXTS))]       # a scalar initialiser that is a text
        if k == 'C':
            ops.append(['C', nm, init])
        elif k == 'R':
            ops.append(['R', nm])
        elif k == 'D':
            ops.append(['D', nm])
        elif k == 'L':
            ops.append(['L', nm, [val() for _ in range(n)]])
        elif k == 'U':
            ops.append(['U', nm, init])
        elif k == 'I':
            ops.append(['I', nm, init])
        elif k == 'O':
            ops.append(['O', nm, rng.randrange(n), val()])
        elif k == 'F':
            vals = [val() for _ in range(n)]
            if rng.random() < 0.35:                 # a function that reaches beyond the track (looks two fixes ahead, or fails on some fix): the value there is undefined (NaN)
                for i in rng.choice([list(range(max(0, n - 2), n)), [0], [rng.randrange(n)], list(range(n))]):
                    vals[i] = None
            ops.append(['F', nm, vals, rng.choice(['add', 'item'])])       # a feature computed by a function, through addAnalyticalFeature or track[n] = f
        else:
            # an expression over the names currently plausible; assignment or not
            tree = C02.gen_tree(rng, rng.randint(1, 2))
            # mostly names that an earlier operation of this history tried to create: an expression over a missing name only raises
            names_in = (created * 3 + ['x', 'y', 'idx']) if created and rng.random() < 0.8 else [R(v) for v in ['a', 'b', 'c', 's']] + ['x', 'y', 'idx']
            if created and rng.random() < 0.3:            # the scalar forms: number op feature and feature op number each have their own operator class
                f = ['name', rng.choice(created)]; l = ['lit', rng.choice(['2', '3', '0.5', '8'])]
                tree = ['bin', rng.choice(['/', '/', '-', '*', '+', '^']), l, f] if rng.random() < 0.6 else ['bin', rng.choice(['/', '-', '*', '+']), f, l]
            def rename(e):
                if e[0] == 'name':
                    return ['name', rng.choice(names_in)]
                if e[0] in ('lit',):
                    return e if 'e' not in e[1].lower() else ['lit', '10']      # (numbers with an exponent are C02's, oracle only: this stream is tied to the model, whose lexer reads plain decimals)
                if e[0] in ('par', 'neg'):
                    return [e[0], rename(e[1])]
                if e[0] == 'fun':
                    return ['fun', e[1], rename(e[2])]
                if e[1] == '^':
                    return ['bin', '^', rename(e[2]), ['lit', rng.choice(['2', '3', '0', '1'])]]      # integer exponents: the domain of the model's power
                return ['bin', e[1], rename(e[2]), rename(e[3])]
            tree = rename(tree)
            lhs = rng.choice([None, 'c', 'a', 'b', 'x', 'y'])
            lhs = R(lhs) if lhs else lhs
            ops.append(['E', (lhs + '=' if lhs else '') + C02.pr_lead(tree, rng), tree, lhs])
    case = {'n': n, 'ops': ops}
    # a third of the histories run on a track that has had an earlier life in the library: it comes out of a resampling of a track that carried features
    # (the resampled track lists none), and / or it is replaced mid-history by its copy, its full extraction, or the concatenation of its two halves
    if rng.random() < 0.35:
        case['pre'] = rng.choice(['rs', 'rs', 'rt'])
    if rng.random() < 0.3 and ops:
        for _ in range(rng.randint(1, 2)):
            ops.insert(rng.randrange(len(ops) + 1), ['P', rng.choice(['copy', 'extract', 'add', 'slice'])])
    return case


def observe(tr):
    names = tr.getListAnalyticalFeatures()
    return {'names': names, 'cols': [enc(tr[k]) for k in names], 'x': enc(tr.getX()), 'y': enc(tr.getY()), 'z': enc(tr.getZ()),
            'nfeat': [len(tr.getObs(i).features) for i in range(tr.size())],
            't': [o.timestamp.toAbsTime() for o in tr]}


def run_impl(case):
    from tracklib.core import ObsTime, ENUCoords, Obs, Track
    from tracklib.core.utils import addListToAF
    n = case['n']
    tr = Track([Obs(ENUCoords(float(i), float(10 + i), 0.0), ObsTime.readUnixTime(1000 + 10 * i)) for i in range(n)])
    if case.get('pre'):
        m = n + 1 if case['pre'] == 'rs' else n + 2
        tr = Track([Obs(ENUCoords(float(3 * i), float(4 * i), 0.0), ObsTime.readUnixTime(1000 + 10 * i)) for i in range(m)])
        tr.createAnalyticalFeature('p', 1000.0)
        tr.createAnalyticalFeature('q', [2000.0 + i for i in range(m)])
        tr.resample(npts=n if case['pre'] == 'rs' else n + 1, mode=1 if case['pre'] == 'rs' else 2)
        if tr.size() != n:
            return {'exc': 'resampling gave %d observations for %d' % (tr.size(), n)}
        for i in range(n):            # the canonical positions and instants of the histories
            tr.getObs(i).position = ENUCoords(float(i), float(10 + i), 0.0)
            tr.getObs(i).timestamp = ObsTime.readUnixTime(1000 + 10 * i)
    steps = []
    for op in case['ops']:
        k, nm = op[0], op[1]
        mk = lambda init: float(init[1]) if init[0] == 's' else (init[1] if init[0] == 't' else [float(v) for v in init[1]])
        try:
            if k == 'C':
                tr.createAnalyticalFeature(nm, mk(op[2]))
            elif k == 'R':
                tr.removeAnalyticalFeature(nm)
            elif k == 'D':
                tr[nm] = "#DELETE"
            elif k == 'L':
                addListToAF(tr, nm, [float(v) for v in op[2]])
            elif k == 'U':
                tr.updateAnalyticalFeature(nm, mk(op[2]))
            elif k == 'I':
                tr[nm] = mk(op[2])
            elif k == 'O':
                tr[nm, op[2]] = float(op[3])
            elif k == 'P':
                if nm == 'copy':
                    tr = tr.copy()
                elif nm == 'extract':
                    tr = tr.extract(0, n - 1)
                elif nm == 'slice':
                    tr = tr[0:n]
                else:
                    h = n // 2
                    tr = (tr.extract(0, h - 1) + tr.extract(h, n - 1)) if 0 < h < n else tr.copy()         # (a sum of tracks that list different features lists none, by design: not used)
            elif k == 'A':
                from tracklib.core.operators import Operator
                if not tr.hasAnalyticalFeature(nm):
                    steps.append({'skipped': True, 'err': None})
                    continue
                opn = op[2]
                args = [getattr(Operator, opn), nm] if isinstance(opn, str) else [getattr(Operator, opn[0]), nm, opn[1]]
                if op[3]:
                    args.append(op[3])
                tr.operate(*args)
            elif k == 'F':
                vals = list(op[2])
                def f(track, i, vals=vals):
                    if vals[i] is None:
                        raise IndexError('beyond the end of the track')
                    return float(vals[i])
                if op[3] == 'item' and nm not in ('x', 'y', 'z'):
                    tr[nm] = f
                else:
                    tr.addAnalyticalFeature(f, nm)
            else:
                ret = tr.operate(nm)
            err = None
        except BaseException as ex:
            err = next((c.__name__ for c in type(ex).__mro__ if c.__name__ in ERRC), 'Other:' + type(ex).__name__)
            if k == 'E':
                steps.append({'err': err, 'stop': True})
                break
        o = observe(tr)
        o['err'] = err
        if k == 'E' and err is None:
            o['ret'] = None if ret is None else C02.enc(ret)
        steps.append(o)
    res = {'steps': steps}
    names = tr.getListAnalyticalFeatures()
    if len(names) >= 2 and steps and not steps[-1].get('stop'):
        # the track concatenated with a twin that lists the same features in another column order (the first one deleted and written again): the sum either lists no feature,
        # or every name reads the values written under that name on both halves
        try:
            twin = tr.copy()
            first = names[0]; vals = twin[first]
            twin.removeAnalyticalFeature(first); twin.createAnalyticalFeature(first, list(vals))
            ssum = tr + twin
            res['probe'] = {'names': ssum.getListAnalyticalFeatures(), 'cols': [enc(ssum[k]) for k in ssum.getListAnalyticalFeatures()], 'single': {k: enc(tr[k]) for k in names}}
        except Exception as ex:
            res['probe'] = {'exc': type(ex).__name__}
    return res


def _col(l):
    return coq_list('None' if v is None else 'Some ' + q(v) for v in l)


def init_lit(init):
    if init[0] == 't':
        return 'IScalar (Some %s)' % q(TEXTS[init[1]])
    return 'IScalar (Some %s)' % q(init[1]) if init[0] == 's' else 'IList %s' % _col(init[1])


def op_lit(op):
    k, nm = op[0], op[1]
    N = 's_ "%s"' % nm
    if k == 'C':
        return 'XCreate (%s) (%s)' % (N, init_lit(op[2]))
    if k == 'R':
        return 'XRemove (%s)' % N
    if k == 'D':
        return 'XDelete (%s)' % N
    if k == 'L':
        return 'XSetCol (%s) %s' % (N, _col(op[2]))
    if k == 'U':
        return 'XUpdate (%s) (%s)' % (N, init_lit(op[2]))
    if k == 'I':
        return 'XSetItem (%s) (%s)' % (N, init_lit(op[2]))
    if k == 'O':
        return 'XSetObs (%s) %d%%nat (Some %s)' % (N, op[2], q(op[3]))
    if k == 'F':
        return 'XAddFun (%s) %s' % (N, _col(op[2]))
    if k == 'AM':
        o = op[2]
        code = {'SHIFT_RIGHT': 'OShift 1', 'SHIFT_LEFT': 'OShift (-1)', 'SHIFT_CIRCULAR_RIGHT': 'OShiftCirc 1', 'SHIFT_CIRCULAR_LEFT': 'OShiftCirc (-1)', 'RECTIFIER': 'ORectify'}[o] if isinstance(o, str) \
            else ('OShift (%d)' % (o[1] if o[0] == 'SHIFT' else -o[1]))
        return 'XAddFun (%s) (opsem (%s)%%Z %s)' % (N, code, _col(op[3]))
    return 'XExpr (%s)' % N


def coq_case(case, obs):
    if 'exc' in obs:
        return None
    steps = obs['steps']
    items = []
    prev = None
    for op, st in zip(case['ops'], steps):
        if st.get('stop'):
            break
        if st.get('skipped'):
            continue               # the operator object was not applied: its input feature was not listed at that point
        if op[0] == 'A':
            # for the table model an operator application is "write this column under that name": the column is the documented output of the operator on the
            # values READ under the input name just before the call
            if prev is None or op[1] not in prev['names'] or st['err'] is not None:
                return None        # the oracle reports it
            op = ['AM', op[3] or op[1], op[2], prev['cols'][prev['names'].index(op[1])]]     # XAddFun out (opsem <operator> <column read before>): the MODEL's operator semantics (Model/OpSem.v) is what runs
        prev = st if 'names' in st else prev
        if op[0] == 'P':
            if st['err'] is not None:
                return None        # the oracle reports it
            continue               # the identity for the model: the next call is compared on the same state
        e = 'None' if st['err'] is None else 'Some %s' % ERRC.get(st['err'], 'Other')
        items.append('(%s, %s, %s, %s, %s, %s, %s)' % (op_lit(op), e, coq_list('s_ "%s"' % k for k in st['names']), coq_list(_col(c) for c in st['cols']),
                                                   _col(st['x']), _col(st['y']), _col(st['z'])))
    return '(%d%%nat, %s)' % (case['n'], coq_list(items))


def oracle(case, obs):
    """independent specification: an ordered map name -> column, the three coordinate columns"""
    if 'exc' in obs:
        return 'history runner raised %s' % obs['exc']
    n = case['n']
    spec = {}          # insertion ordered
    co = {'x': [float(i) for i in range(n)], 'y': [float(10 + i) for i in range(n)], 'z': [0.0] * n}
    virt = ['x', 'y', 'z', 't', 'timestamp', 'idx']
    for idx, (op, st) in enumerate(zip(case['ops'], obs['steps'])):
        if st.get('stop'):
            return None
        if st.get('skipped'):
            continue
        k, nm = op[0], op[1]
        col = lambda init: [float(init[1])] * n if init[0] == 's' else ([TEXTS[init[1]]] * n if init[0] == 't' else [float(v) for v in init[1]])
        if k == 'C':
            if nm not in virt and nm not in spec:
                spec[nm] = col(op[2])
        elif k in ('R', 'D'):
            spec.pop(nm, None)
        elif k == 'L':
            if nm in co:
                co[nm] = [float(v) for v in op[2]]
            elif nm in spec:
                spec[nm] = [float(v) for v in op[2]]
        elif k == 'U':
            if nm in spec:
                spec[nm] = col(op[2])
        elif k == 'I':
            if nm in spec:
                spec[nm] = col(op[2])
            elif nm not in virt:
                spec[nm] = col(op[2])
        elif k == 'O':
            if nm in co:
                co[nm][op[2]] = float(op[3])
            elif nm in spec:
                spec[nm] = list(spec[nm]); spec[nm][op[2]] = float(op[3])
        elif k == 'P':
            if st['err'] is not None:
                return 'step %d: %s of the track raised %s' % (idx, nm, st['err'])
        elif k == 'F':
            if nm not in virt:
                spec[nm] = [nan if v is None else float(v) for v in op[2]]
        elif k == 'A':
            if st.get('skipped'):
                continue
            if st['err'] is not None:
                return 'step %d: operator object %r on %r raised %s' % (idx, op[2], nm, st['err'])
            if nm in spec and not any(isinstance(v, str) for v in spec[nm]):
                out = applied(op[2], [None if v != v else v for v in spec[nm]])
                spec[op[3] or nm] = [nan if v is None else v for v in out]
            else:
                return None          # a text feature: outside the oracle's domain from here on
        else:
            if st['err'] is not None:
                return None
            env = dict(spec)
            env.update({'x': co['x'], 'y': co['y'], 'z': co['z'], 'idx': [float(i) for i in range(n)]})
            tree, lhs = op[2], op[3]
            try:
                val = C02.ev(tree, env, n)
            except (C02.Undefined, KeyError):
                return None          # outside the oracle's domain from here on (unknown name, division by zero ...)
            if any(abs(v) > 1e9 for v in val if v == v):
                return None
            if lhs is None:
                if st.get('ret') is None or not C02.close_lists(st['ret'], val):
                    return 'step %d: operate(%r) returned %r, expected %r' % (idx, nm, st.get('ret'), val)
            elif lhs in co:
                co[lhs] = val
            else:
                spec[lhs] = val
        what = 'after step %d (%r)' % (idx, op[:2])
        if sorted(st['names']) != sorted(spec.keys()) or len(set(st['names'])) != len(st['names']):
            return '%s the track lists %r, expected %r' % (what, st['names'], list(spec.keys()))
        if any(c != len(spec) for c in st['nfeat']):
            return '%s the observations carry %r values for %d listed features' % (what, st['nfeat'], len(spec))
        for name, colv in zip(st['names'], st['cols']):
            if not C02.close_lists(colv, spec[name]):
                return '%s reading %r gives %r, last written %r' % (what, name, colv, spec[name])
        for c in 'xyz':
            if not C02.close_lists(st[c], co[c]):
                return '%s coordinate %s reads %r, expected %r' % (what, c, st[c], co[c])
        if st['t'] != [1000.0 + 10 * i for i in range(n)]:
            return '%s timestamps changed' % what
    pr = obs.get('probe')
    if pr:
        if 'exc' in pr:
            return 'concatenating the track with a twin listing the same features in another order raised %s' % pr['exc']
        for k, colv in zip(pr['names'], pr['cols']):
            want = pr['single'][k] + pr['single'][k]
            if not C02.close_lists(colv, [nan if v is None else v for v in want]):
                return 'track + twin (same features, another column order): reading %r gives %r, the values written under that name are %r' % (k, colv, want)
    return None


def shrink(case):
    ops = case['ops']
    for i in range(len(ops)):
        yield dict(case, ops=ops[:i] + ops[i + 1:])
    if case.get('pre'):
        yield {k: v for k, v in case.items() if k != 'pre'}


CHECK = '''Definition mk (n : nat) : track := {| xs := map vnat (seq 0 n); ys := map vnat (seq 10 n); zs := repeat (Some 0) n; ts := map (fun i => vnat (1000 + 10 * i)) (seq 0 n); dico := []; feats := repeat [] n |}.
Definition erreqb (a b : option err) : bool := match a, b with None, None => true | Some x, Some y => err_eqb x y | _, _ => false end.
Definition same (t : track) (nm : list str) (cols : list (list val)) (x y z : list val) : bool :=
  all2 str_eqb (Table.names t) nm && all2 (fun n col => match get_af t n with Ok c => all2 approx c col | Err _ => false end) nm cols
  && all2 approx (xs t) x && all2 approx (ys t) y && all2 approx (zs t) z
  && forallb (fun f => (List.length f =? List.length (dico t))%nat) (feats t).
Fixpoint run (t : track) (l : list (xop * option err * list str * list (list val) * list val * list val * list val)) : bool :=
  match l with
  | [] => true
  | (o, e, nm, cols, x, y, z) :: r => erreqb (xerr t o) e && (let t' := xstep t o in same t' nm cols x y z && run t' r)
  end.
Definition ok (c : nat * list (xop * option err * list str * list (list val) * list val * list val * list val)) : bool := run (mk (fst c)) (snd c).'''


def mkstream(name, with_expr, budget, rule):
    return Stream(name=name, budget=budget, rule=rule,
                  imports=('From Coq Require Import List Ascii String ZArith QArith.\nImport ListNotations.\n'
                           'From TL Require Import Model.Str Model.Table Model.Eval Model.Pipeline Model.ExprCheck Model.History Model.OpSem.\nOpen Scope Q_scope.\nOpen Scope string_scope.'),
                  case_type='nat * list (xop * option err * list str * list (list val) * list val * list val * list val)', check_def=CHECK,
                  generate=lambda rng, n, tier: [gen_history(rng, rng.randint(1, 14), with_expr) for _ in range(n)],
                  run_impl=run_impl, coq_case=coq_case, oracle=oracle, shrink=shrink,
                  nontrivial=lambda c, o: any(op[0] in ('R', 'D') for op in c['ops']) and len(c['ops']) >= 3,
                  klass=lambda c, o: 'len=%d' % len(c['ops']))


STREAMS = [
    mkstream('table', False, {'quick': 700, 'thorough': 20000},
             'histories of 1..14 calls over the names a b c s and the virtual names x y idx t on tracks of 1..4 observations: create (scalar / list), remove, "#DELETE", addListToAF, update, '
             'bracket assignment, single-observation assignment; observed after EVERY call: error class, getListAnalyticalFeatures(), every track[name], len(obs.features), getX/Y/Z, timestamps; '
             'non-trivial = at least 3 calls including a deletion'),
    mkstream('expressions', True, {'quick': 500, 'thorough': 15000},
             'the same alphabet plus operate(expr) steps (expression trees over the current names, with and without assignment, printed as in C02); an expression that raises ends the history'),
]
