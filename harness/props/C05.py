"""C05 - linear resampling is the piecewise-linear interpolant"""
import math
from fractions import Fraction as F
from core import Stream, q, coq_list

from props import C03 as _C03
generated_model = _C03.generated_model          # the resamplers stamp every interpolated observation with ObsTime.readUnixTime: its translation from the source (see C03) is re-checked here too

PROP = 'C05'
THEOREM_FILE = 'Props/C05.v'
NOTES = ['exact streams use dyadic coordinates, abscissas and steps so that binary64 arithmetic is exact and bracket decisions (ties included) are the same on both sides; positions compared to 1e-9',
         'timestamps of produced observations are compared to the millisecond (readUnixTime truncates the fractional part to ms)',
         'requested instants are non-decreasing (the code breaks at the first instant after the end); strictly increasing original timestamps in temporal mode',
         'stream spatial_decimal is a float-stress search (decimal, non-dyadic lengths and steps): oracle only, no model']
IMPORTS = 'From Coq Require Import List Arith ZArith QArith Qabs Bool.\nImport ListNotations.\nFrom TL Require Import Model.Resample Model.ResampleS.\nOpen Scope Q_scope.'
COMMON = '''Definition close (a b : Q) : bool := Qle_bool (Qabs (a - b)) ((1 # 1000000000) * (1 + Qabs b)).
Definition tclose (a b : Q) : bool := Qle_bool (Qabs (a - b)) (1001 # 1000000).
'''


def mktrack(T, ms, X, Y, Z):
    from tracklib.core import ObsTime, ENUCoords, Obs, Track
    obs = []
    for i in range(len(T)):
        t = ObsTime.readUnixTime(T[i])
        t.ms = ms[i]
        obs.append(Obs(ENUCoords(X[i], Y[i], Z[i]), t))
    return Track(obs)


def observe(tr):
    return {'n': tr.size(), 'X': list(tr.getX()), 'Y': list(tr.getY()), 'Z': list(tr.getZ()),
            'T': [o.timestamp.toAbsTime() for o in tr], 'names': tr.getListAnalyticalFeatures()}


# ------------------------------------------------------------------ temporal

VALS = [0, 1, 2, -3, 7, 0.5, 2.25, 10.125]


def gen_temporal(rng, n, tier):
    out = []
    for _ in range(n):
        k = rng.randint(2, 12)
        base = rng.choice([1000, 1000, 1000, 4107542390, 4107542400 + 86400 * 40, 951782390])       # ordinary instants, or around the end of February 2100 / 2000 and later in 2100
        byear = rng.choice([1980, 1972, 1999]) if rng.random() < 0.12 else None
        if byear:
            base = rng.choice([4107542390, 951782390, 4107542400 + 86400 * 40])
        ts = sorted(rng.sample(range(base, base + 4 * k + 10), k))
        ms = [rng.choice([0, 0, 250, 500, 750]) for _ in ts]
        if rng.random() < 0.1:                      # a track whose first fix carries the default timestamp (01/01/1970 00:00:00.000), as left by incrementTime()
            d = ts[0]; ts = [t - d for t in ts]; ms[0] = 0; base = 0
        coords = [[float(rng.choice(VALS)) for _ in range(k)] for _ in range(3)]
        if rng.random() < 0.3:      # repeated positions
            i = rng.randrange(1, k)
            for c in coords:
                c[i] = c[i - 1]
        form = rng.choice(['list', 'list', 'number', 'track'])
        case = {'T': ts, 'ms': ms, 'X': coords[0], 'Y': coords[1], 'Z': coords[2], 'form': form, 'zone': rng.choice([0, 0, 0, 2, -3]) if form == 'number' else 0, 'byear': byear}
        lo, hi = ts[0] - 5, ts[-1] + 6
        if form == 'number':
            dur = ts[-1] - ts[0]
            case['delta'] = rng.choice([1, 2, 0.5, 0.25, 5, dur, dur / 2.0, dur + 1, 3])
            if rng.random() < 0.45 and base < 10 ** 6:      # steps that are not dyadic (not at instants of 4e9 s, where one ulp of the instant is already 5e-7 s), with and without a sub-millisecond part (the request is the float's exact value)
                case['delta'] = rng.choice([1 / 3, 0.4375, 2.01, 4.02, 1.001, 0.7, 0.3, 1.1, 0.0625, 2.03])
                t0 = F(ts[0]) + F(ms[0], 1000); t1 = F(ts[-1]) + F(ms[-1], 1000); d = F(case['delta']); kk = (t1 - t0) / d
                if abs(kk - round(kk)) * d < F(1, 10 ** 6):
                    case['delta'] = 1            # the last request would fall within rounding of the last fix: which side it lands on is not the property
        else:
            m = rng.randint(0, 9)
            pool = [(t, mm) for t, mm in zip(ts, ms)]        # instants equal to fixes
            ref = sorted((rng.choice(pool) if rng.random() < 0.3 else (rng.randint(lo, hi), rng.choice([0, 0, 500, 750, 125]))) for _ in range(m))
            case['ref'] = [list(r) for r in ref]
        out.append(case)
    return out


def ref_instants(case, tini, tfin):
    """the requested instants (seconds, binary64) in the order handed to the loop"""
    if case['form'] == 'number':
        out = []
        t = tini
        while True:
            out.append(t)
            t += case['delta']
            if t > tfin:
                break
        return out
    return [s + m / 1000.0 for s, m in case['ref']]


def with_base_year(case, fn):
    """the resampling run with the library's reference year moved (ObsTime.UNIX_BASE_YEAR, a documented class attribute shared by toAbsTime and readUnixTime) to a year
    not later than the track: the calendar dates produced are the same.  The track is built and observed under the default reference year."""
    by = case.get('byear')
    if not by or case['T'][0] < 946684800:           # (the reference year must not be later than the track: such a case runs with the default)
        return fn()
    from tracklib.core import ObsTime
    old = ObsTime.UNIX_BASE_YEAR
    ObsTime.UNIX_BASE_YEAR = by
    try:
        return fn()
    finally:
        ObsTime.UNIX_BASE_YEAR = old


def also(case):
    """further keyword arguments of the call that must not matter once a step is given ("If both are specified, priority is given to delta"): a number of points, a factor, the algorithm named explicitly;
    derived from the case itself so that every replay makes the same call"""
    h = (len(case['X']) * 7 + int(case['T'][0]) + len(case.get('ref', []))) % 10
    return [{}, {}, {}, {}, {}, {'npts': 4}, {'npts': 1}, {'factor': 3}, {'npts': 7, 'factor': 2}, {'algo': 1}][h]


def run_temporal(case):
    from tracklib.core import ObsTime
    tr = mktrack(case['T'], case['ms'], case['X'], case['Y'], case['Z'])
    tr.createAnalyticalFeature('a', 1.0)
    if case.get('zone'):
        tr.setTimeZone(case['zone'])
    if case['form'] == 'number':
        arg = case['delta']
    else:
        lst = []
        for s, m in case['ref']:
            t = ObsTime.readUnixTime(s)
            t.ms = m
            lst.append(t)
        arg = lst if case['form'] == 'list' else mktrack([s for s, _ in case['ref']], [m for _, m in case['ref']], *[[0.0] * len(lst)] * 3)
    with_base_year(case, lambda: tr.resample(delta=arg, mode=2, **also(case)))
    return observe(tr)


def coq_temporal(case, obs):
    if 'exc' in obs:
        return None
    T = [case['T'][i] + case['ms'][i] / 1000.0 for i in range(len(case['T']))]
    REF = ref_instants(case, T[0], T[-1])
    L = lambda l: coq_list(q(v) for v in l)
    return '(%s, %s, %s, %s)' % (L(T), coq_list(L(case[c]) for c in 'XYZ'), L(REF), coq_list(L(obs[c]) for c in 'TXYZ'))


def interp_exact(Ts, V, t):
    """the property's interpolant, exact arithmetic: the consecutive pair with T[i-1] < t <= T[i]"""
    for i in range(1, len(Ts)):
        if Ts[i - 1] < t <= Ts[i]:
            w = (t - Ts[i - 1]) / (Ts[i] - Ts[i - 1])
            return F(V[i - 1]) + w * (F(V[i]) - F(V[i - 1]))
    return None


def oracle_temporal(case, obs):
    if 'exc' in obs:
        return 'temporal resample raised %s' % obs['exc']
    Ts = [F(case['T'][i]) + F(case['ms'][i], 1000) for i in range(len(case['T']))]
    if case['form'] == 'number':
        REF = []
        k = 0
        while Ts[0] + k * F(case['delta']) <= Ts[-1]:
            REF.append(Ts[0] + k * F(case['delta']))
            k += 1
    else:
        REF = [F(s) + F(m, 1000) for s, m in case['ref']]
    want = [t for t in REF if Ts[0] < t <= Ts[-1]]
    if obs['n'] != len(want):
        return '%d observations returned for %d requested instants inside (T0, Tlast]: requests %r' % (obs['n'], len(want), [float(t) for t in REF])
    for j, t in enumerate(want):
        if abs(F(obs['T'][j]) - t) > F(1001, 1000000):
            return 'observation %d is stamped %r, requested instant %r' % (j, obs['T'][j], float(t))
        for c in 'XYZ':
            e = interp_exact(Ts, case[c], t)
            if abs(F(obs[c][j]) - e) > F(1, 10 ** 9) * (1 + abs(e)):
                return '%s of observation %d is %r, the linear interpolant at %r is %r' % (c, j, obs[c][j], float(t), float(e))
    if obs['names']:
        return 'features remain listed after resampling: %r' % obs['names']
    return None


def shrink_t(case):
    n = len(case['T'])
    if n > 2:
        for i in range(n):
            c = dict(case)
            for k in ('T', 'ms', 'X', 'Y', 'Z'):
                c[k] = case[k][:i] + case[k][i + 1:]
            yield c
    if case.get('ref'):
        for i in range(len(case['ref'])):
            c = dict(case)
            c['ref'] = case['ref'][:i] + case['ref'][i + 1:]
            yield c


S_TEMPORAL = Stream(
    name='temporal', budget={'quick': 600, 'thorough': 15000},
    rule=('tracks of 2..12 fixes with irregular strictly increasing timestamps (quarter-second parts), dyadic coordinates, repeated positions; the request given as a list '
          'of timestamps (instants before/inside/after the range, equal to fixes, duplicates), as a number of seconds (dividing the duration or not) or as a reference track; '
          'observed through Track.resample(mode=TEMPORAL): size, getX/Y/Z, timestamps, feature names; non-trivial = at least one observation produced'),
    imports=IMPORTS, case_type='list Q * list (list Q) * list Q * list (list Q)',
    check_def=COMMON + '''Fixpoint cmp (a : list (Q * Q)) (t x : list Q) : bool := match a, t, x with [], [], [] => true | (t1, x1) :: r, t2 :: ts, x2 :: xs => tclose t1 t2 && close x1 x2 && cmp r ts xs | _, _, _ => false end.
Definition ok (c : list Q * list (list Q) * list Q * list (list Q)) : bool :=
  let '(T, cols, REF, out) := c in
  let ot := nth 0 out [] in
  forallb (fun k => match resample_temporal T (nth k cols []) REF with Some o => cmp o ot (nth (S k) out []) | None => false end) (seq 0 3).''',
    generate=gen_temporal, run_impl=run_temporal, coq_case=coq_temporal, oracle=oracle_temporal, shrink=shrink_t,
    nontrivial=lambda c, o: o.get('n', 0) >= 1, klass=lambda c, o: c['form'])


# ------------------------------------------------------------------ spatial (exact, dyadic)

LEGS = [(0, 0), (3, 4), (-3, 4), (5, 12), (1, 0), (0, 2), (-8, 6), (0, 0), (0.5, 0), (0, -0.25), (6, 8)]


def gen_spatial(rng, n, tier):
    out = []
    for _ in range(n):
        k = rng.randint(2, 10)
        X = [0.0]; Y = [0.0]
        for _ in range(k - 1):
            dx, dy = rng.choice(LEGS)
            X.append(X[-1] + dx); Y.append(Y[-1] + dy)
        if all(X[i] == X[0] and Y[i] == Y[0] for i in range(k)):
            X[-1] += 3; Y[-1] += 4
        Z = [float(rng.choice([0, 1, 2, 10, 0.5])) for _ in range(k)]
        if rng.random() < 0.04:                      # a receiver that never moved (same position and height at every fix): a polyline of length 0 has no abscissa ds, 2 ds ...: the first fix alone
            X = [X[0]] * k; Y = [Y[0]] * k; Z = [Z[0]] * k
        base = rng.choice([100, 100, 100, 4107542390, 4107542400 + 86400 * 40, 951782390])
        byear = rng.choice([1980, 1972, 1999]) if rng.random() < 0.12 else None
        if byear:
            base = rng.choice([4107542390, 951782390, 4107542400 + 86400 * 40])
        T = sorted(rng.sample(range(base, base + 3 * k + 5), k))
        out.append({'X': X, 'Y': Y, 'Z': Z, 'T': T, 'ms': [0] * k, 'ds': rng.choice([0.25, 0.5, 1, 2, 4, 5, 2.5, 10, 13]), 'zone': rng.choice([0, 0, 0, 2, -3]), 'byear': byear})
        # a track with a past: its curvilinear abscissas were computed (feature abs_curv) when its geometry was another one - twice as large and edited in place since,
        # or with one more fix that has been removed since; the resampling is that of the polyline the track has NOW
        if rng.random() < 0.25:
            out[-1]['stale'] = rng.choice(['edit', 'remove', 'fresh'])
    return out


def abscissas(case):
    from tracklib.core import ENUCoords
    S = [0]
    for i in range(1, len(case['X'])):
        S.append(S[i - 1] + ENUCoords(case['X'][i - 1], case['Y'][i - 1], 0).distance2DTo(ENUCoords(case['X'][i], case['Y'][i], 0)))
    return S


def run_spatial(case):
    from tracklib.algo.cinematics import computeAbsCurv
    st = case.get('stale')
    if st == 'edit':
        tr = mktrack(case['T'], case['ms'], [2 * v + 1 for v in case['X']], [2 * v for v in case['Y']], case['Z'])
        computeAbsCurv(tr)
        for i in range(tr.size()):
            tr.getObs(i).position.setX(case['X'][i]); tr.getObs(i).position.setY(case['Y'][i])
    elif st == 'remove':
        j = len(case['X']) // 2
        ins = lambda l, v: l[:j] + [v] + l[j:]
        tr = mktrack(ins(case['T'], case['T'][j]), ins(case['ms'], 0), ins(case['X'], case['X'][j] + 7.0), ins(case['Y'], case['Y'][j] - 24.0), ins(case['Z'], 1.0))
        computeAbsCurv(tr)
        tr.removeObs(j)
    else:
        tr = mktrack(case['T'], case['ms'], case['X'], case['Y'], case['Z'])
        if st == 'fresh':
            computeAbsCurv(tr)
    tr.createAnalyticalFeature('a', 1.0)
    if case.get('zone'):
        tr.setTimeZone(case['zone'])              # a label on the timestamps: the instants, hence the interpolated ones, are the same wall-clock fields
    with_base_year(case, lambda: tr.resample(delta=case['ds'], mode=1, **also(case)))
    o = observe(tr)
    o['S'] = abscissas(case)
    return o


def coq_spatial(case, obs):
    if 'exc' in obs:
        return None
    L = lambda l: coq_list(q(v) for v in l)
    cols = [case['X'], case['Y'], case['Z'], [float(t) for t in case['T']]]
    return '(%s, %s, %s, %s)' % (L(obs['S']), coq_list(L(c) for c in cols), q(case['ds']), coq_list(L(obs[c]) for c in 'XYZT'))


def oracle_spatial_exact(case, obs):
    # the exact stream: leg lengths and the step are dyadic, so the number of points is known exactly: the first fix and one point per k = 1 .. floor(L / ds)
    r = oracle_spatial(case, obs)
    if r or 'exc' in obs:
        return r
    L = sum(F(math.hypot(case['X'][i] - case['X'][i - 1], case['Y'][i] - case['Y'][i - 1])) for i in range(1, len(case['X'])))
    want = 1 + math.floor(L / F(case['ds']))
    if obs['n'] != want:
        return '%d observations returned, the first fix and the points at abscissas k * %r, k = 1 .. %d, of a polyline of length %r make %d' % (obs['n'], case['ds'], want - 1, float(L), want)
    return None


def oracle_spatial(case, obs):
    if 'exc' in obs:
        return 'spatial resample raised %s (X=%r, Y=%r, ds=%r)' % (obs['exc'], case['X'], case['Y'], case['ds'])
    n = len(case['X'])
    leg = [math.hypot(case['X'][i] - case['X'][i - 1], case['Y'][i] - case['Y'][i - 1]) for i in range(1, n)]
    S = [0.0]
    for l in leg:
        S.append(S[-1] + l)
    ds = case['ds']
    N = int(math.floor(S[-1] / ds * (1 + 1e-12) + 1e-9))
    if obs['n'] not in (N + 1, N, N + 2) or abs(obs['n'] - 1 - S[-1] / ds) > 1 + 1e-9:
        return '%d observations for a polyline of length %r resampled every %r' % (obs['n'], S[-1], ds)
    if (obs['X'][0], obs['Y'][0], obs['Z'][0]) != (case['X'][0], case['Y'][0], case['Z'][0]) or abs(obs['T'][0] - case['T'][0]) > 1e-6:
        return 'the first observation is not the first fix'
    tol = 1e-7 * (1 + S[-1])
    for k in range(1, obs['n']):
        s = k * ds
        if s > S[-1] + tol:
            return 'point %d would be at abscissa %r beyond the end %r' % (k, s, S[-1])
        ok = False
        for i in range(1, n):          # any consecutive pair whose abscissa range contains s
            if S[i - 1] - tol <= s <= S[i] + tol and leg[i - 1] > 0:
                w = (s - S[i - 1]) / leg[i - 1]
                ex = [case[c][i - 1] + w * (case[c][i] - case[c][i - 1]) for c in 'XYZ']
                et = case['T'][i - 1] + w * (case['T'][i] - case['T'][i - 1])
                if all(abs(obs[c][k] - e) <= 1e-6 * (1 + abs(e)) for c, e in zip('XYZ', ex)) and abs(obs['T'][k] - et) <= 2e-3:
                    ok = True
                    break
        if not ok:
            return 'point %d (%r, %r, z=%r, t=%r) is not the point of the polyline at abscissa %r with interpolated height and time' % (k, obs['X'][k], obs['Y'][k], obs['Z'][k], obs['T'][k], s)
        if obs['T'][k] < obs['T'][k - 1] - 1e-9:
            return 'timestamps decrease at point %d: %r after %r' % (k, obs['T'][k], obs['T'][k - 1])
    if obs['names']:
        return 'features remain listed after resampling: %r' % obs['names']
    return None


def shrink_s(case):
    n = len(case['X'])
    if n > 2:
        for i in range(n):
            c = dict(case)
            for k in ('T', 'ms', 'X', 'Y', 'Z'):
                c[k] = case[k][:i] + case[k][i + 1:]
            yield c


S_SPATIAL = Stream(
    name='spatial', budget={'quick': 500, 'thorough': 12000},
    rule=('planar tracks of 2..10 fixes with axis-parallel and Pythagorean legs (abscissas exact), zero-length legs and back-tracking, steps from a dyadic set; '
          'observed through Track.resample(mode=SPATIAL): size, getX/Y/Z, timestamps; the model receives the abscissa list (partial sums of distance2DTo); non-trivial = at least 2 points produced'),
    imports=IMPORTS, case_type='list Q * list (list Q) * Q * list (list Q)',
    check_def=COMMON + '''Fixpoint cmp (tol : bool) (a : list (Q * Q)) (x : list Q) : bool := match a, x with [], [] => true | (_, x1) :: r, x2 :: xs => (if tol then tclose x1 x2 else close x1 x2) && cmp tol r xs | _, _ => false end.
Definition ok (c : list Q * list (list Q) * Q * list (list Q)) : bool :=
  let '(Sa, cols, ds, out) := c in
  forallb (fun k => match resample_spatial Sa (nth k cols []) ds with Some o => cmp (Nat.eqb k 3) o (nth k out []) | None => false end) (seq 0 4).''',
    generate=gen_spatial, run_impl=run_spatial, coq_case=coq_spatial, oracle=oracle_spatial_exact, shrink=shrink_s,
    nontrivial=lambda c, o: o.get('n', 0) >= 2, klass=lambda c, o: 'n=%d' % len(c['X']))


# ------------------------------------------------------------------ spatial, float stress (decimal lengths): oracle only

def gen_decimal(rng, n, tier):
    out = []
    for _ in range(n):
        k = rng.randint(2, 6)
        X = [0.0]
        for _ in range(k - 1):
            X.append(X[-1] + rng.choice([0.05, 0.1, 0.15, 0.2, 0.35, 0.7, 1.1, 0.3, 2.6]))
        sc = rng.choice([1, 1, 10, 0.1])
        X = [x * sc for x in X]
        Y = [0.0] * k
        if rng.random() < 0.3:
            Y = [x * 0.75 for x in X]; X = [x * 1.0 for x in X]
        out.append({'X': X, 'Y': Y, 'Z': [0.0] * k, 'T': [100 + 10 * i for i in range(k)], 'ms': [0] * k, 'ds': rng.choice([0.05, 0.1, 0.15, 0.35, 0.7, 0.3]) * sc})
    return out


S_DECIMAL = Stream(
    name='spatial_decimal', budget={'quick': 1500, 'thorough': 40000},
    rule=('float stress: collinear / oblique tracks whose leg lengths and step are decimal (non-dyadic) multiples of 0.05, so that length/step is an integer up to rounding; '
          'oracle only (no exception, points on the polyline at k*ds within 1e-7 relative); non-trivial = always'),
    imports=IMPORTS, case_type='unit', check_def='Definition ok (c : unit) : bool := true.',
    generate=gen_decimal, run_impl=run_spatial, coq_case=lambda c, o: None, oracle=oracle_spatial, shrink=shrink_s,
    klass=lambda c, o: 'n=%d' % len(c['X']))

STREAMS = [S_TEMPORAL, S_SPATIAL, S_DECIMAL]
