"""C03 - timestamps <-> epoch seconds"""
import datetime, fractions
from core import Stream, q, coq_list, zlit, coq_bool

PROP = 'C03'
THEOREM_FILE = 'Props/C03.v'
NOTES = ['binary64: the calendar fields of readUnixTime(x) are those of floor(x) (x - integer is exact when the result is smaller); only int(frac*1000) can round, so the ms field is tied up to one unit',
         'datetime (proleptic Gregorian, no leap seconds) is the oracle for replay search; the Coq spec is the closed-form civil day number']
IMPORTS = ('From Coq Require Import List ZArith QArith Qround Qabs Bool.\nImport ListNotations.\n'
           'From TL Require Import Model.ObsTime Model.ObsTimeQ Proofs.ObsTime_ord Proofs.ObsTime_ops.\nOpen Scope Z_scope.')
EPOCH = datetime.datetime(1970, 1, 1)
NDAYS = 47482 + 365 * 12      # 1970 .. 2111


def generated_model():
    """the second tie of this property: isLeapYear / readUnixTime / toAbsTime are TRANSLATED from /repo's current obs_time.py on every run (harness/py2coq.py)
    and coq/GenProofs/ObsTimeGen_eq.v proves, for the text generated now, that they are the model's is_leap / read_unix / to_abs and restates the round-trip and order theorems for them; the comparison methods are translated and tied the same way"""
    import os, shutil, subprocess, tempfile
    from core import TL_ROOT, COQ_DIR
    import py2coq
    res = {'scope': 'ObsTime.isLeapYear, readUnixTime, toAbsTime on whole seconds ((int)(a / b) is Z.quot, the term + ms / 1000.0 kept apart) and the comparison methods __eq__ __ne__ __lt__ __gt__ __le__ __ge__ (the isinstance guard of __eq__ is the typing of the model), addSec / addMin / addHour / addDay and __sub__ (whole-second part)',
           'proof': 'coq/GenProofs/ObsTimeGen_eq.v: gen_readUnixTime_eq, gen_toAbsTime_eq, gen_lt_eq, gen_gt_eq, gen_eq_eq, gen_ne_eq, gen_ge_eq, gen_le_eq, gen_addSec_eq, gen_addMin_eq, gen_addHour_eq, gen_addDay_eq, gen_sub_eq; restated theorems gen_seconds_roundtrip, gen_calendar_roundtrip, gen_addSec_ok, gen_lt_iff, gen_gt_iff, gen_eq_iff'}
    try:
        text = py2coq.translate_obstime(os.path.join(TL_ROOT, 'tracklib', 'core', 'obs_time.py'))
    except (py2coq.Untranslatable, SyntaxError) as e:
        return dict(res, ok=False, what='the source is outside the translated subset', tail=str(e))
    d = tempfile.mkdtemp(prefix='tlgen_C03_')
    try:
        open(os.path.join(d, 'ObsTimeGen.v'), 'w').write(text)
        shutil.copy(os.path.join(COQ_DIR, 'GenProofs', 'ObsTimeGen_eq.v'), d)
        for f in ('ObsTimeGen.v', 'ObsTimeGen_eq.v'):
            p = subprocess.run('timeout 600 coqc -Q %s TL -Q . TLGen %s' % (COQ_DIR, f), shell=True, cwd=d, capture_output=True, text=True)
            if p.returncode != 0:
                return dict(res, ok=False, what='%s no longer checks against the generated text' % ('the generated file' if f == 'ObsTimeGen.v' else 'the equivalence proof'), tail=(p.stdout + p.stderr)[-800:])
        closed = (p.stdout + p.stderr).count('Closed under the global context')
        return dict(res, ok=True, what='checked', tail='', print_assumptions='%d of 5 closed under the global context' % closed, generated_chars=len(text))
    finally:
        shutil.rmtree(d, ignore_errors=True)


def special_days():
    out = []
    for d in range(NDAYS):
        dt = EPOCH + datetime.timedelta(days=d)
        if (dt.month, dt.day) in ((1, 1), (12, 31), (2, 28), (2, 29), (3, 1), (12, 30), (1, 2)):
            out.append(d)
    return out


def fields(t):
    return [t.year, t.month, t.day, t.hour, t.min, t.sec, t.ms]


def expect(s):
    d = EPOCH + datetime.timedelta(seconds=s)
    return [d.year, d.month, d.day, d.hour, d.minute, d.second]


# ---------------------------------------------------------------- stream unix: whole seconds

def gen_unix(rng, n, tier):
    sp = special_days()
    if tier == 'thorough':
        days = list(range(NDAYS))
    else:
        days = sorted(set(sp) | set(rng.sample(range(NDAYS), max(10, n // 4 - len(sp)))))
    cases = []
    for d in days:
        for off in (0, 43200, 86399, rng.randrange(86400)):
            cases.append({'s': d * 86400 + off})
    for _ in range(n // 10):
        cases.append({'s': rng.randrange(0, 2 ** 33)})      # far future (year ~2242): no upper bound in the theorem
    # the machine's local time zone is not an input of the conversion: instants around year ends, month ends and day ends under local zones east and west of Greenwich
    for _ in range(n // 8):
        d = rng.choice(sp)
        cases.append({'s': d * 86400 + rng.choice([0, 1800, 3 * 3600, 86399, 86400 - 1800, 86400 - 5 * 3600, 43200, rng.randrange(86400)]),
                      'tz': rng.choice(['AAA-9', 'BBB+5', 'CCC-1', 'DDD+11', 'EEE-13', 'CET-1CEST,M3.5.0,M10.5.0/3'])})
    return cases


def under_tz(case, fn):
    """the conversion run in a process whose local time zone is case['tz'] (a POSIX TZ string): the result is a UTC calendar date whatever the machine's zone"""
    import os, time
    if not case.get('tz'):
        return fn()
    old = os.environ.get('TZ')
    os.environ['TZ'] = case['tz']; time.tzset()
    try:
        return fn()
    finally:
        if old is None:
            os.environ.pop('TZ', None)
        else:
            os.environ['TZ'] = old
        time.tzset()


def run_unix(case):
    from tracklib.core import ObsTime
    def go():
        t = ObsTime.readUnixTime(case['s'])
        return {'f': fields(t), 'abs': t.toAbsTime()}
    return under_tz(case, go)


def coq_unix(case, obs):
    if 'exc' in obs:
        return None
    if obs['abs'] != int(obs['abs']):
        return '(%d, (0,0,0,0,0,0,0), 0)' % case['s']  # cannot agree: forces a disagreement
    return '(%d, (%s), %d)' % (case['s'], ','.join('(%d)' % v for v in obs['f']), int(obs['abs']))


def oracle_unix(case, obs):
    if 'exc' in obs:
        return 'readUnixTime(%d) raised %s' % (case['s'], obs['exc'])
    if obs['f'][:6] != expect(case['s']) or obs['f'][6] != 0:
        return 'readUnixTime(%d) = %r, the Gregorian calendar says %r' % (case['s'], obs['f'], expect(case['s']) + [0])
    if obs['abs'] != case['s']:
        return 'toAbsTime(readUnixTime(%d)) = %r' % (case['s'], obs['abs'])
    return None


S_UNIX = Stream(
    name='unix', budget={'quick': 4000, 'thorough': 4000},
    rule=('whole-second instants: thorough = every calendar day 1970..2111 at 00:00:00, 12:00:00, 23:59:59 and one random second (exhaustive over days); '
          'quick = every 1 Jan / 2 Jan / 30-31 Dec / 28-29 Feb / 1 Mar of those years plus a seeded sample of days, plus random instants up to 2^33 s; '
          'observed: the seven fields and toAbsTime(); non-trivial = later than 1970-01-01; distinct by value'),
    imports=IMPORTS, case_type='Z * (Z*Z*Z*Z*Z*Z*Z) * Z',
    check_def=("Definition ok (c : Z * (Z*Z*Z*Z*Z*Z*Z) * Z) : bool := let '(s,(y,mo,d,h,mi,se,m_),a) := c in let t := read_unix s in "
               "(year t =? y) && (month t =? mo) && (day t =? d) && (hour t =? h) && (minute t =? mi) && (sec t =? se) && (ms t =? m_) && (to_abs t =? a)."),
    generate=gen_unix, run_impl=run_unix, coq_case=coq_unix, oracle=oracle_unix,
    nontrivial=lambda c, o: c['s'] >= 86400,
    klass=lambda c, o: 'year-end' if expect(c['s'])[1:3] in ([12, 31], [1, 1]) else ('feb' if expect(c['s'])[1] == 2 else 'other'),
    finding_key=lambda c, o, w: None)


# ---------------------------------------------------------------- stream frac: fractional instants

def gen_frac(rng, n, tier):
    sp = special_days()
    cases = []
    for _ in range(n):
        d = rng.choice(sp) if rng.random() < 0.4 else rng.randrange(NDAYS)
        s = d * 86400 + rng.choice([0, 86399, rng.randrange(86400)])
        ms = rng.choice([0, 1, 999, 500, 250, rng.randrange(1000)])
        sub = rng.choice([0, 0, 0, 0.0004, 0.0006, 0.00096, 0.00049])          # content below the millisecond (interpolated instants, offsets such as 0.9996 s)
        cases.append({'x': float(s) + ms / 1000.0 + sub, 's': s, 'ms': ms})
        if rng.random() < 0.15:
            cases[-1]['tz'] = rng.choice(['AAA-9', 'BBB+5', 'EEE-13'])
    return cases


def run_frac(case):
    from tracklib.core import ObsTime
    def go():
        t = ObsTime.readUnixTime(case['x'])
        return {'f': fields(t), 'abs': t.toAbsTime()}
    return under_tz(case, go)


def coq_frac(case, obs):
    if 'exc' in obs:
        return None
    return '(%s, (%s))' % (q(case['x']), ','.join('(%d)' % v for v in obs['f']))


def oracle_frac(case, obs):
    if 'exc' in obs:
        return 'readUnixTime(%r) raised %s' % (case['x'], obs['exc'])
    f = obs['f']
    x = fractions.Fraction(case['x'])
    try:
        dt = datetime.datetime(f[0], f[1], f[2], f[3], f[4], f[5])
    except ValueError as e:
        return 'readUnixTime(%r) = %r is not a well-formed date (%s)' % (case['x'], f, e)
    if not (0 <= f[6] <= 999):
        return 'readUnixTime(%r) has millisecond field %r' % (case['x'], f[6])
    inst = fractions.Fraction(int((dt - EPOCH).total_seconds())) + fractions.Fraction(f[6], 1000)
    if abs(inst - x) >= fractions.Fraction(1, 1000) + fractions.Fraction(1, 10 ** 6):
        return 'readUnixTime(%r) = %r denotes %s, more than one millisecond away' % (case['x'], f, float(inst))
    if abs(fractions.Fraction(obs['abs']) - x) >= fractions.Fraction(1, 1000) + fractions.Fraction(1, 10 ** 6):
        return 'toAbsTime(readUnixTime(%r)) = %r' % (case['x'], obs['abs'])
    return None


S_FRAC = Stream(
    name='frac', budget={'quick': 1500, 'thorough': 30000},
    rule=('instants with a millisecond part (second chosen at year/month ends with probability 0.4, ms from {0,1,999,500,250,random}) given as binary64; '
          'observed: the seven fields and toAbsTime(); the ms field is compared up to one unit (float product frac*1000); non-trivial = ms part non-zero'),
    imports=IMPORTS, case_type='Q * (Z*Z*Z*Z*Z*Z*Z)',
    check_def=("Definition ok (c : Q * (Z*Z*Z*Z*Z*Z*Z)) : bool := let '(x,(y,mo,d,h,mi,se,m_)) := c in let t := read_unix_q x in "
               "(year t =? y) && (month t =? mo) && (day t =? d) && (hour t =? h) && (minute t =? mi) && (sec t =? se) && (Z.abs (ms t - m_) <=? 1)."),
    generate=gen_frac, run_impl=run_frac, coq_case=coq_frac, oracle=oracle_frac,
    nontrivial=lambda c, o: c['ms'] != 0, klass=lambda c, o: 'ms=%s' % ('0' if c['ms'] == 0 else 'nz'))


# ---------------------------------------------------------------- stream ops: comparison operators and addSec

def rand_date(rng):
    y = rng.choice([1970, 1971, 1999, 2000, 2001, 2020, 2021, 2100, rng.randint(1970, 2110)])
    m = rng.randint(1, 12)
    leap = y % 4 == 0 and (y % 100 != 0 or y % 400 == 0)
    dim = [31, 29 if leap else 28, 31, 30, 31, 30, 31, 31, 30, 31, 30, 31][m - 1]
    return [y, m, rng.choice([1, dim, rng.randint(1, dim)]), rng.choice([0, 23, rng.randint(0, 23)]), rng.choice([0, 59, rng.randint(0, 59)]),
            rng.choice([0, 59, rng.randint(0, 59)]), rng.choice([0, 0, 999, rng.randint(0, 999)])]


def gen_ops(rng, n, tier):
    cases = []
    for _ in range(n):
        a = rand_date(rng)
        r = rng.random()
        if r < 0.5:
            b = list(a)
            k = rng.randrange(7)
            b[k] += rng.choice([-1, 1])
            lim = [(1970, 9999), (1, 12), (1, 28), (0, 23), (0, 59), (0, 59), (0, 999)][k]
            b[k] = min(max(b[k], lim[0]), lim[1])
            leap = b[0] % 4 == 0 and (b[0] % 100 != 0 or b[0] % 400 == 0)
            b[2] = min(b[2], [31, 29 if leap else 28, 31, 30, 31, 30, 31, 31, 30, 31, 30, 31][b[1] - 1])
        elif r < 0.6:
            b = list(a)
        elif r < 0.75:
            # two neighbouring fields apart in OPPOSITE directions (10:30:20.900 against 10:30:21.100, 31 January against 1 February): the order is decided by the
            # more significant field alone, however far apart the less significant one
            lims = [(1970, 9999), (1, 12), (1, 28), (0, 23), (0, 59), (0, 59), (0, 999)]
            k = rng.choice([5, 5, 5, 4, 4, 3, 2, 1, 0])
            a[2] = min(a[2], 28)
            b = list(a)
            lo, hi = lims[k]
            a[k] = min(max(a[k], lo), hi - 1)
            b[k] = a[k] + rng.choice([1, 1, 1, 2, 9]) if k != 0 else a[k] + 1
            b[k] = min(b[k], hi)
            lo2, hi2 = lims[k + 1]
            a[k + 1] = rng.choice([hi2, hi2 - 1, rng.randint((lo2 + hi2) // 2, hi2)])
            b[k + 1] = rng.choice([lo2, lo2 + 1, rng.randint(lo2, (lo2 + hi2) // 2)])
            if rng.random() < 0.5:
                a, b = b, a
        else:
            b = rand_date(rng)
        cases.append({'a': a, 'b': b, 'edit': rng.choice([None, None, 'fields', 'copy']), 'zones': rng.choice([[0, 0], [0, 0], [2, 0], [-3, 2], [1, 1]]), 'addms': rng.random() < 0.4, 'n': rng.choice([2, 5, 30, -3, -20, 0, 1, 59, 60, 3600, 86400, 86399, 31536000, -1, -86400, rng.randint(-10 ** 7, 10 ** 8)])})
        if rng.random() < 0.15:
            cases[-1]['tz'] = rng.choice(['AAA-9', 'BBB+5', 'EEE-13'])
        if rng.random() < 0.15:
            cases[-1]['nf'] = rng.choice([-0.5, -1.5, -0.25, 0.75, 2.25, -2.75, -0.001, 0.001, -59.5, 86399.5, -86400.25])
    return cases


def to_secs(f):
    return int((datetime.datetime(*f[:6]) - EPOCH).total_seconds())


def run_ops(case):
    return under_tz(case, lambda: run_ops_(case))


def run_ops_(case):
    from tracklib.core import ObsTime
    za, zb = case.get('zones', [0, 0])            # a time-zone label on the timestamp: the calendar fields are what is converted, compared and shifted
    a = ObsTime(*case['a'], za); b = ObsTime(*[int(str(v)) for v in case['b']], zb)      # b's fields are numbers obtained independently (parsed from text): equal values, not the same objects
    a0 = ObsTime(*(case['a'][:6] + [case['a'][6] if case.get('addms') else 0]), za)
    if case.get('edit'):
        # the same timestamps reached by editing the public calendar fields of objects that were already converted, compared and shifted
        a = ObsTime(*case['b'], za); a0 = ObsTime(*case['b'], za)
        for o in (a, a0):
            o.toAbsTime(); o.addSec(1); o - b; o < b
        a.year, a.month, a.day, a.hour, a.min, a.sec, a.ms = case['a']
        a0.year, a0.month, a0.day, a0.hour, a0.min, a0.sec, a0.ms = case['a'][:6] + [case['a'][6] if case.get('addms') else 0]
        if case['edit'] == 'copy':
            a = a.copy(); a0 = a0.copy()
    res = {'lt': a < b, 'gt': a > b, 'le': a <= b, 'ge': a >= b, 'eq': a == b, 'ne': a != b,
           'abs_a': a.toAbsTime(), 'sub': a - b}
    if case.get('nf') is not None:
        if to_secs(case['a']) + case['nf'] >= 1:
            res['addf'] = fields(a0.addSec(case['nf']))          # a fractional offset, of either sign: oracle only
    elif to_secs(case['a']) + case['n'] >= 0:
        res['add'] = fields(a0.addSec(case['n']))
    return res


def dlit(f):
    return '{| year := %d; month := %d; day := %d; hour := %d; minute := %d; sec := %d; ms := %d |}' % tuple(f)


def coq_ops(case, obs):
    if 'exc' in obs:
        return None
    add = 'None'
    if 'add' in obs:
        add = 'Some (%s)' % dlit(obs['add'])
    a0 = case['a'][:6] + [case['a'][6] if case.get('addms') else 0]
    return '(%s, %s, %s, (%s, %s, %s, %s, %s), %s, %s, %s)' % (dlit(case['a']), dlit(case['b']), dlit(a0), coq_bool(obs['lt']), coq_bool(obs['gt']), coq_bool(obs['le']),
                                                           coq_bool(obs['ge']), coq_bool(obs['eq']), zlit(case['n']), add, q(obs['abs_a']))


def oracle_ops(case, obs):
    if 'exc' in obs:
        return 'comparison / addSec raised %s on %r %r' % (obs['exc'], case['a'], case['b'])
    ia = to_secs(case['a']) * 1000 + case['a'][6]
    ib = to_secs(case['b']) * 1000 + case['b'][6]
    exp = {'lt': ia < ib, 'gt': ia > ib, 'le': ia <= ib, 'ge': ia >= ib, 'eq': ia == ib, 'ne': ia != ib}
    for k, v in exp.items():
        if bool(obs[k]) != v:
            return '%r %s %r is %r but the instants are %d ms and %d ms' % (case['a'], k, case['b'], obs[k], ia, ib)
    if abs(obs['abs_a'] * 1000 - ia) > 1e-3:
        return 'toAbsTime(%r) = %r, the calendar says %r' % (case['a'], obs['abs_a'], ia / 1000.0)
    if 'addf' in obs:
        f = obs['addf']
        try:
            got = to_secs(f) * 1000 + f[6]
        except ValueError as e:
            return 'addSec(%r, %r) = %r is not a well-formed date (%s)' % (case['a'], case['nf'], f, e)
        a0ms = case['a'][6] if case.get('addms') else 0
        want = to_secs(case['a']) * 1000 + a0ms + case['nf'] * 1000
        if not (0 <= f[6] <= 999) or abs(got - want) > 1.01:
            return 'addSec(%r, %r) = %r: %r ms since 1970, adding the offset gives %r ms' % (case['a'][:6] + [a0ms], case['nf'], f, got, want)
    if 'add' in obs:
        s = to_secs(case['a']) + case['n']
        if case.get('addms') and abs(obs['add'][6] - case['a'][6]) > 1:
            return 'addSec(%r, %d) = %r: the millisecond part %d of the timestamp is lost' % (case['a'], case['n'], obs['add'], case['a'][6])
        if obs['add'][:6] != expect(s):
            return 'addSec(%r, %d) = %r, expected %r' % (case['a'][:6], case['n'], obs['add'], expect(s))
    return None


S_OPS = Stream(
    name='ops', budget={'quick': 1500, 'thorough': 40000},
    rule=('pairs of well-formed timestamps (half of them reached by editing the calendar fields of an object that was already converted / shifted / compared, or a copy of it): one field apart by one unit (50%), equal (10%), two neighbouring fields apart in opposite directions (15%), independent (25%), years 1970..2110, ms included; '
          'observed: < > <= >= == !=, toAbsTime, and addSec(n) for offsets crossing minute/hour/day/year ends; non-trivial = the two differ'),
    imports=IMPORTS, case_type='date * date * date * (bool*bool*bool*bool*bool) * Z * option date * Q',
    check_def=('''Definition beq (a b : bool) : bool := if a then b else negb b.
Definition ok (c : date * date * date * (bool*bool*bool*bool*bool) * Z * option date * Q) : bool :=
  let '(a, b, a0, (l, g, le, ge, e), n, add, absa) := c in
  beq (lt a b) l && beq (gt a b) g && beq (negb (gt a b)) le && beq (negb (lt a b)) ge && beq (eqd a b) e &&
  Qle_bool (Qabs (inject_Z (to_abs_ms a) / 1000 - absa)) (1 # 1000000) &&
  match add with None => true | Some d => let r := add_sec a0 n in (year r =? year d) && (month r =? month d) && (day r =? day d) && (hour r =? hour d) && (minute r =? minute d) && (sec r =? sec d) && (Z.abs (ms a0 - ms d) <=? 1) end.   (* adding whole seconds keeps the sub-second part (to one unit: the float product frac * 1000) *)'''),
    generate=gen_ops, run_impl=run_ops, coq_case=coq_ops, oracle=oracle_ops,
    nontrivial=lambda c, o: c['a'] != c['b'], klass=lambda c, o: 'equal' if c['a'] == c['b'] else 'differ')

STREAMS = [S_UNIX, S_FRAC, S_OPS]
