"""C11 - splitting on a marker partitions the track; threshold markers"""
import itertools, math
from core import Stream, q, optq, coq_list, coq_bool

PROP = 'C11'
THEOREM_FILE = 'Props/C11.v'
NOTES = ['limit = 0 (no piece is dropped for being short); one threshold per tested feature (the documented use)']
nan = float('nan')

# ------------------------------------------------------------------ split

def gen_split(rng, n, tier):
    out = []
    top = 12 if tier == 'thorough' else 7
    for k in range(0, top + 1):                      # exhaustive over all marker vectors up to length top
        for bits in itertools.product((0, 1), repeat=k):
            out.append({'marks': list(bits)})
    for _ in range(n):
        k = rng.randint(1, 25)
        out.append({'marks': [rng.choice([0, 0, 0, 1, 1, 2, None]) for _ in range(k)]})
        if rng.random() < 0.3:                       # fixes whose altitude (or northing) is unknown: the pieces are made of observations, whatever their coordinates
            out[-1]['nanz'] = sorted(rng.sample(range(k), rng.randint(1, min(3, k)))); out[-1]['nanc'] = rng.choice(['z', 'z', 'y'])
    return out


def run_split(case):
    from tracklib.core import ObsTime, ENUCoords, Obs, Track
    import sys, tracklib.algo.segmentation
    sg = sys.modules['tracklib.algo.segmentation']
    marks = case['marks']
    n = len(marks)
    nz = set(case.get('nanz') or ()); nc = case.get('nanc', 'z')
    tr = Track([Obs(ENUCoords(i, nan if (i in nz and nc == 'y') else 0, nan if (i in nz and nc == 'z') else 0), ObsTime.readUnixTime(i)) for i in range(n)])
    if n:
        tr.createAnalyticalFeature('m', [nan if v is None else float(v) for v in marks])
    else:
        return {'pieces': [], 'src': []}
    col = sg.split(tr, 'm')
    pieces = [[int(col.getTrack(k).getObs(i).position.getX()) for i in range(col.getTrack(k).size())] for k in range(col.size())]
    return {'pieces': pieces, 'src': [int(tr.getObs(i).position.getX()) for i in range(tr.size())]}


def coq_split(case, obs):
    if 'exc' in obs or not case['marks']:
        return None
    return '(%d%%nat, %s, %s)' % (len(case['marks']), coq_list(coq_bool(v == 1) for v in case['marks']),
                                coq_list(coq_list('%d%%nat' % i for i in p) for p in obs['pieces']))


def oracle_split(case, obs):
    if 'exc' in obs:
        return 'split raised %s' % obs['exc']
    marks = [v == 1 for v in case['marks']]
    n = len(marks)
    if obs['src'] != list(range(n)):
        return 'the source track was modified: %r' % obs['src']
    ps = obs['pieces']
    if not any(marks):
        return None if ps == [] else 'no marked observation but split returned %r' % ps
    flat = [i for p in ps for i in p]
    if flat != list(range(n)):
        return 'pieces %r do not contain every observation exactly once in order (n=%d)' % (ps, n)
    for p in ps[:-1]:
        if not p or not marks[p[-1]] or any(marks[i] for i in p[:-1]):
            return 'piece %r does not end at its only marked observation' % p
    last = ps[-1]
    if any(marks[i] for i in last[:-1]):
        return 'last piece %r contains a marker before its end' % last
    return None


S_SPLIT = Stream(
    name='split', budget={'quick': 400, 'thorough': 3000},
    rule=('every marker vector over {0,1} up to length 7 (quick) / 12 (thorough) - exhaustive - plus random vectors up to length 25 with values 0, 1, 2 and NaN '
          '(only the value 1 marks); observed: identities of the observations of every returned piece, and the source track afterwards; non-trivial = at least one marker and length >= 2'),
    imports='From Coq Require Import List Arith Bool.\nImport ListNotations.\nFrom TL Require Import Model.Split.',
    case_type='nat * list bool * list (list nat)',
    check_def="Definition ok (c : nat * list bool * list (list nat)) : bool := let '(n, marks, out) := c in if list_eq_dec (list_eq_dec Nat.eq_dec) (split nat (seq 0 n) marks) out then true else false.",
    generate=gen_split, run_impl=run_split, coq_case=coq_split, oracle=oracle_split,
    nontrivial=lambda c, o: len(c['marks']) >= 2 and any(v == 1 for v in c['marks']),
    klass=lambda c, o: 'none' if not any(v == 1 for v in c['marks']) else ('last-marked' if c['marks'][-1] == 1 else 'tail'))

# ------------------------------------------------------------------ threshold markers

VALS = [0.0, 1.0, 2.0, 2.5, 3.0, -1.0, None]


def gen_marker(rng, n, tier):
    out = []
    for _ in range(n):
        nf = rng.randint(1, 3)
        k = rng.randint(1, 8)
        thr = [rng.choice([0.0, 1.0, 2.0, 2.5]) for _ in range(nf)]
        cols = [[rng.choice(VALS) for _ in range(k)] for _ in range(nf)]
        if rng.random() < 0.3:                       # values a rounding error away from their threshold, at every magnitude ("exceeds" is an exact comparison of the two numbers)
            thr = [rng.choice([0.3, 3.3, 1.7e9, 1e-12, 35.0, -2.5, 1e300, 2.0 ** -1060]) for _ in range(nf)]
            near = lambda t: rng.choice([t, math.nextafter(t, math.inf), math.nextafter(t, -math.inf), t * (1 + 1e-12), t * (1 - 1e-12), t * (1 + 3e-10), t + abs(t) * 1e-15, 0.1 + 0.2, 3 * 1.1, None, 0.0])
            cols = [[near(thr[j]) for _ in range(k)] for j in range(nf)]
        out.append({'mode': rng.choice([1, 2]), 'thr': thr, 'via': rng.choice(['fn', 'fn', 'collection']), 'nameset': rng.choice([None, None, None, 'ops', 'other', 'repeat']),
                    'cols': cols, 'scalar': nf == 1 and rng.random() < 0.5, 'mixed': rng.choice([None, 'ls', 'sl']) if nf == 1 else None,
                    # a third of the cases first run another segmentation into the same output feature (other thresholds, other mode): the second run must overwrite it
                    'before': ([rng.choice([0.0, 1.0, 2.0, 2.5, -2.0]) for _ in range(nf)], rng.choice([1, 2])) if rng.random() < 0.33 else None})
        c = out[-1]
        if rng.random() < 0.2:                       # infinite values (a ratio over a zero denominator): only NaN is ignored, +inf exceeds every threshold and -inf none
            for col in c['cols']:
                for i in range(k):
                    if rng.random() < 0.35:
                        col[i] = rng.choice([math.inf, -math.inf])
        if c['nameset'] == 'repeat' and len(c['cols']) >= 2:
            c['cols'][-1] = list(c['cols'][0])      # the last entry tests the first feature again
            c['scalar'] = False
        elif rng.random() < 0.12:                    # the tested features are the built-in ones (coordinates): "mark everything above altitude Z", "east of X"
            c['nameset'] = 'builtin'; c['before'] = None
            c['cols'] = [[0.0 if v is None else v for v in col] for col in c['cols']]
            c['perm'] = rng.sample(['x', 'y', 'z'], 3)
        elif rng.random() < 0.15:                    # thresholding in place: the marker is written under the name of one of the tested features (each observation is tested on its values before its marker is written)
            c['inplace'] = rng.randrange(nf); c['before'] = None
    return out


def run_marker(case):
    from tracklib.core import ObsTime, ENUCoords, Obs, Track
    import sys, tracklib.algo.segmentation
    sg = sys.modules['tracklib.algo.segmentation']
    k = len(case['cols'][0])
    tr = Track([Obs(ENUCoords(i, 0, 0), ObsTime.readUnixTime(i)) for i in range(k)])
    names = ['f%d' % j for j in range(len(case['cols']))]
    if case.get('nameset') == 'ops':                  # legal feature names that contain operator characters: the name designates the feature, not an expression
        names = ['a-b', 'a', 'b'][:len(names)]
    elif case.get('nameset') == 'other':
        names = ['speed_km/h', 'v (raw)', 'acc^2'][:len(names)]
    elif case.get('nameset') == 'repeat':             # the same feature tested twice, against two thresholds (a band): entries are matched with thresholds by position
        names = ['f0', 'f1', 'f0'][:len(names)] if len(names) != 2 else ['f0', 'f0']
    if case.get('nameset') == 'builtin':
        names = case['perm'][:len(names)]
        for nm, c in zip(names, case['cols']):
            for i, v in enumerate(c):
                getattr(tr.getObs(i).position, 'set' + nm.upper())(v)
    for nm, c in zip(names, case['cols']):
        if case.get('nameset') == 'builtin':
            continue
        if not tr.hasAnalyticalFeature(nm):
            tr.createAnalyticalFeature(nm, [nan if v is None else v for v in c])
    OUT = 'out' if case.get('inplace') is None else names[case['inplace']]
    if case.get('before'):
        sg.segmentation(tr, names, 'out', list(case['before'][0]), case['before'][1])
    if case.get('via') == 'collection':              # the collection-level entry point, which runs the same segmentation on each of its tracks
        from tracklib.core import TrackCollection
        col = TrackCollection([tr])
        col.segmentation(names[0] if case['scalar'] else names, OUT, case['thr'][0] if case['scalar'] else list(case['thr']), case['mode'])
    elif case.get('mixed') and len(names) == 1:
        # one tested feature, the feature given as a list and its threshold as a bare number (or the other way round): the four ways of writing the call mean the same
        if case['mixed'] == 'ls':
            sg.segmentation(tr, [names[0]], OUT, case['thr'][0], case['mode'])
        else:
            sg.segmentation(tr, names[0], OUT, [case['thr'][0]], case['mode'])
    elif case['scalar']:
        sg.segmentation(tr, names[0], OUT, case['thr'][0], case['mode'])
    else:
        sg.segmentation(tr, names, OUT, list(case['thr']), case['mode'])
    return {'out': [float(v) for v in tr.getAnalyticalFeature(OUT)], 'cols': [(case['cols'][j] if nm == OUT else [None if v != v else v for v in tr.getAnalyticalFeature(nm)]) for j, nm in enumerate(names)], 'names': tr.getListAnalyticalFeatures()}


def ext(v):
    """a non-NaN feature value / threshold as a term of the model's extended rationals (Model/ExtQ.v)"""
    if isinstance(v, float) and math.isinf(v):
        return 'PInf' if v > 0 else 'MInf'
    return '(Fin %s)' % q(v)


def optq_ext(v):
    return 'None' if (v is None or v != v) else '(Some %s)' % ext(v)


def coq_marker(case, obs):
    if 'exc' in obs:
        return None
    k = len(case['cols'][0])
    rows = coq_list(coq_list(optq_ext(case['cols'][j][i]) for j in range(len(case['cols']))) for i in range(k))
    return '(%s, %s, %s, %s)' % (coq_bool(case['mode'] == 1), rows, coq_list(ext(t) for t in case['thr']), coq_list(coq_bool(v == 1) for v in obs['out']))


def oracle_marker(case, obs):
    if 'exc' in obs:
        return 'segmentation raised %s' % obs['exc']
    k = len(case['cols'][0])
    for i in range(k):
        tests = [(c[i], t) for c, t in zip(case['cols'], case['thr']) if c[i] is not None]
        if case['mode'] == 1:
            exp = any(v > t for v, t in tests)
        else:
            exp = all(v > t for v, t in tests)
        if obs['out'][i] not in (0.0, 1.0) or (obs['out'][i] == 1.0) != exp:
            return 'marker at observation %d is %r, expected %d (values %r, thresholds %r, mode %s)' % (
                i, obs['out'][i], exp, [c[i] for c in case['cols']], case['thr'], 'AND' if case['mode'] == 1 else 'OR')
    if obs['cols'] != case['cols']:
        return 'tested features were modified'
    return None


S_MARK = Stream(
    name='markers', budget={'quick': 600, 'thorough': 12000},
    rule=('1..3 tested features on 1..8 observations with values below / equal to / above the thresholds, NaN and (one case in five) +-inf (the model runs on the extended rationals of Model/ExtQ.v); both comparison modes, scalar and list arguments; '
          'observed: the marker column and the tested columns afterwards; non-trivial = some value is NaN or equals its threshold'),
    imports='From Coq Require Import List Arith Bool QArith.\nImport ListNotations.\nFrom TL Require Import Model.Split Model.ExtQ.\nOpen Scope Q_scope.',
    case_type='bool * list (list (option extq)) * list extq * list bool',
    check_def='''Definition beq (a b : bool) : bool := if a then b else negb b.
Fixpoint leqb (a b : list bool) : bool := match a, b with [], [] => true | x :: r, y :: s => beq x y && leqb r s | _, _ => false end.
Definition ok (c : bool * list (list (option extq)) * list extq * list bool) : bool :=
  let '(andm, rows, thr, out) := c in
  leqb (map (fun vals => if andm then marker_and extq extq_leb vals thr else marker_or extq extq_leb vals thr) rows) out.''',
    generate=gen_marker, run_impl=run_marker, coq_case=coq_marker, oracle=oracle_marker,
    nontrivial=lambda c, o: any(v is None or v in c['thr'] for col in c['cols'] for v in col),
    klass=lambda c, o: ('AND' if c['mode'] == 1 else 'OR') + '/%d' % len(c['cols']))

STREAMS = [S_SPLIT, S_MARK]
