"""C02 - algebraic feature expressions evaluate to ordinary arithmetic on the features"""
import math
from core import Stream, q, coq_list, isnan

PROP = 'C02'
THEOREM_FILE = 'Props/C02.v'
NOTES = ['values are exact rationals in the model (float rounding abstracted: results compared to 1e-9 relative); feature values are small dyadic numbers',
         'grammar: features a b s, the virtual names x y z idx (t in the oracle stream), unsigned decimal literals, + - * / ^ < >, parentheses, unary minus at the start / after "=" / after "(", '
         'functions D I D2 ABS SIGN DIODE SUM AVG MIN MAX with () or {}; function arguments mention at least one feature; ^ with small non-negative integer exponents',
         'SIGN(NaN) is 0 as the documented lambda 1*(x>=0) - 1*(x<0) gives; SQRT / EXP / LOG / COS / SIN / TAN go through the same Apply operator as ABS and are covered by the oracle stream only']
nan = float('nan')
IMPORTS = ('From Coq Require Import List Ascii String ZArith QArith.\nImport ListNotations.\n'
           'From TL Require Import Model.Str Model.Table Model.Eval Model.Pipeline Model.ExprCheck.\nOpen Scope Q_scope.\nOpen Scope string_scope.')
NAMES = ['a', 'b', 's', 'x', 'idx']
LITS = ['2', '3', '0.5', '0', '10']
BIN = ['+', '-', '*', '/', '<', '>']
FUN = ['D', 'I', 'D2', 'ABS', 'SIGN', 'DIODE', 'SUM', 'AVG', 'MIN', 'MAX']
ERR = ['AnalyticalFeatureError', 'KeyError', 'TypeError', 'IndexError', 'ZeroDivisionError', 'ValueError']
ERRC = {'AnalyticalFeatureError': 'AFError', 'KeyError': 'KeyError', 'TypeError': 'TypeError', 'IndexError': 'IndexError', 'ZeroDivisionError': 'ZeroDiv', 'ValueError': 'ValueError'}


def _f(v):
    return nan if v is None else v


def enc(l):
    # (an integer too large for a float is kept as it is: exact integer arithmetic on idx can produce such values, and the rational model follows)
    return [v if (isinstance(v, int) and not isinstance(v, bool) and abs(v) > 10 ** 300) else (None if isnan(float(v)) else float(v)) for v in l]


def mk_track(case):
    from tracklib.core import ObsTime, ENUCoords, Obs, Track
    n = len(case['X'])
    tr = Track([Obs(ENUCoords(case['X'][i], case['Y'][i], case['Z'][i]), ObsTime.readUnixTime(1000 + 10 * i)) for i in range(n)])
    for k in 'abs':
        vals = [_f(v) for v in case[k]]
        if case.get('np'):                        # the same values held as numpy.float64 scalars (a float subclass: what list(np.array(...)) and the numpy-based feature code produce)
            import numpy as np
            vals = list(np.array(vals, dtype=np.float64))
        tr.createAnalyticalFeature(k, vals)
    if case.get('nodata') is not None:
        tr.no_data_value = case['nodata']         # the marker a file reader leaves on its tracks (a value of the features may be equal to it): operators compute on values
    if case.get('extra'):                         # a fourth feature under another name (assignments then overwrite it)
        tr.createAnalyticalFeature(case['extra'][0], [_f(v) for v in case['extra'][1]])
    return tr


def run_impl(case):
    tr = mk_track(case)
    try:
        r = tr.operate(case['prog'])
    except Exception as ex:
        for cls in type(ex).__mro__:
            if cls.__name__ in ERR:
                return {'err': cls.__name__}
        return {'err': 'Other:' + type(ex).__name__}
    names = tr.getListAnalyticalFeatures()
    return {'ret': None if r is None else enc(r), 'names': names, 'cols': [enc(tr[k]) for k in names], 'x': enc(tr.getX()), 'y': enc(tr.getY()), 'z': enc(tr.getZ()),
            'nfeat': [len(tr.getObs(i).features) for i in range(tr.size())], 't_ok': [o.timestamp.toAbsTime() for o in tr] == [1000.0 + 10 * i for i in range(tr.size())]}


def _col(l):
    return coq_list('None' if v is None else 'Some ' + q(v) for v in l)


def _hasinf(obs):
    return any(isinstance(v, float) and v in (float('inf'), float('-inf')) for l in [obs.get('ret') or [], obs['x'], obs['y'], obs['z']] + obs['cols'] for v in l)


def coq_case(case, obs):
    import re as _re
    if 'exc' in obs or ('err' not in obs and _hasinf(obs)) or case.get('exact') or (obs.get('err') == 'Other:OverflowError' and not case.get('intonly')) or _re.search(r'[0-9.][eE][0-9]', case['prog']):
        return None                               # an infinity, a floating-point overflow (e.g. the 1e300 sentinel of an aggregate over no value, squared) or a value decided by cancellation is not a value of the rational model: left to the oracle
    n = len(case['X'])
    ex4 = case.get('extra')
    t = '{| xs := %s; ys := %s; zs := %s; ts := %s; dico := [(s_ "a", 0%%nat); (s_ "b", 1%%nat); (s_ "s", 2%%nat)%s]; feats := %s |}' % (
        _col(case['X']), _col(case['Y']), _col(case['Z']), _col([1000 + 10 * i for i in range(n)]), '; (s_ "%s", 3%%nat)' % ex4[0] if ex4 else '',
        coq_list(_col([case['a'][i], case['b'][i], case['s'][i]] + ([ex4[1][i]] if ex4 else [])) for i in range(n)))
    if 'err' in obs:
        ex = 'XErr %s' % ERRC.get(obs['err'], 'Other')
    else:
        ex = 'XOk (%s) %s %s %s %s %s' % ('None' if obs['ret'] is None else 'Some ' + _col(obs['ret']), coq_list('s_ "%s"' % k for k in obs['names']),
                                          coq_list(_col(c) for c in obs['cols']), _col(obs['x']), _col(obs['y']), _col(obs['z']))
    return '(%s, s_ "%s", %s)' % (t, case['prog'], ex)


def rand_track(rng):
    k = rng.randint(1, 5)
    pn = rng.choice([0.0, 0.03, 0.03, 0.03, 0.4])                     # one track in five is rich in undefined (NaN) feature values, at any position
    pz = rng.choice([0.0, 0.03, 0.03, 0.3])                           # ... and one in four is rich in zeros
    vals = lambda: [None if rng.random() < pn else (0 if rng.random() < pz else rng.choice([1, 2, 3, -1, -2, 0.5, 4])) for _ in range(k)]
    return {'X': [float(rng.randint(-3, 3)) for _ in range(k)], 'Y': [float(rng.randint(-3, 3)) for _ in range(k)],
            'Z': [float(rng.randint(0, 2)) for _ in range(k)], 'a': vals(), 'b': vals(), 's': vals(), 'nodata': rng.choice([None, None, None, 0, 2, -1, 0.5, 1])}


# ------------------------------------------------------------------ stream programs: random strings, well formed or not (model tie only)

def _expr(r, d):
    x = r.random()
    if d == 0 or x < 0.2:
        return r.choice(NAMES) if r.random() < 0.7 else r.choice(LITS)
    if x < 0.62:
        op = r.choice(BIN); l = _expr(r, d - 1); rr = _expr(r, d - 1)
        if r.random() < 0.5 and any(c in l for c in '+-*/<>^'):
            l = '(' + l + ')'
        if r.random() < 0.6 and any(c in rr for c in '+-*/<>^'):
            rr = '(' + rr + ')'
        return l + op + rr
    if x < 0.70:
        return _expr(r, d - 1) + r.choice(['^2', '^3', '**2', '^idx'])
    if x < 0.80:
        return '(' + _expr(r, d - 1) + ')'
    if x < 0.86:
        return '(-' + _expr(r, d - 1) + ')'
    f = r.choice(FUN); br = r.choice(['{}', '()'])
    return f + br[0] + r.choice(['', '', '', '-', '-', '+']) + (r.choice(NAMES[:3]) if r.random() < 0.6 else _expr(r, d - 1)) + br[1]


def gen_programs(rng, n, tier):
    out = []
    for _ in range(n):
        c = rand_track(rng)
        e = _expr(rng, rng.randint(0, 3))
        if rng.random() < 0.15:
            e = '-' + e
        x = rng.random()
        if x < 0.35:
            e = rng.choice(['c', 'a', 'b', 'x', 'y', 's']) + '=' + e
        elif x < 0.42:
            e = rng.choice(['a', 'b']) + rng.choice(['+=', '*=', '-=']) + e
        if rng.random() < 0.2:
            e = e.replace('+', ' + ')
        c['prog'] = e
        out.append(c)
    for k in range(max(3, n // 150)):
        # integer-only programs over idx on a track of 6 or 7 fixes: towers of powers whose exact values exceed the range of floats (1e436): integer arithmetic has no overflow
        c = rand_track(rng); m = rng.choice([6, 7])
        for key in ('X', 'Y', 'Z'):
            c[key] = [float(i) for i in range(m)]
        for key in ('a', 'b', 's'):
            c[key] = [1] * m
        c['nodata'] = None; c['intonly'] = True
        c['prog'] = rng.choice(['SUM{idx^idx^idx^idx^idx}', 'MAX{idx^idx^idx^idx^idx}', 'MIN{idx^idx^idx^idx^idx}', 'c=SUM{idx^idx^idx^idx^idx}', 'idx^idx^idx^idx^idx', 'SUM{idx^idx^idx}', 'SUM{idx^idx^idx^idx^idx}-MAX{idx^idx^idx^idx^idx}'])      # (no literal: a literal is a float)
        out.append(c)
    return out


def oracle_programs(case, obs):
    if 'exc' in obs:
        return 'operate(%r) raised an exception outside the modelled classes: %s' % (case['prog'], obs['exc'])
    if case.get('intonly') and 'err' in obs:
        return 'operate(%r) raised %s on a track of %d fixes: an expression over idx alone has an exact integer value at every fix' % (case['prog'], obs['err'], len(case['X']))
    if 'err' not in obs:
        n = len(case['X'])
        if any(k != len(obs['names']) for k in obs['nfeat']):
            return 'after operate(%r) the observations carry %r values for %d listed features' % (case['prog'], obs['nfeat'], len(obs['names']))
        if any(nm.startswith('#') for nm in obs['names']):
            return 'evaluator temporaries remain listed after operate(%r): %r' % (case['prog'], obs['names'])
        if not obs['t_ok']:
            return 'timestamps changed'
    return None


S_PROGRAMS = Stream(
    name='programs', budget={'quick': 900, 'thorough': 25000},
    rule=('random program strings: expression trees to depth 3 over a b s x idx, literals, + - * / ^ ** < >, D I D2 ABS SIGN DIODE SUM AVG MIN MAX with braces or parentheses, unary minus, '
          'optional assignment to a new / existing / coordinate name or reflexive op=, spaces; well formed or not (the model predicts the exception class); tracks of 1..5 observations with zeros, '
          'negatives and NaN; observed: returned list, feature names, every column, x y z, per-observation feature count; non-trivial = the program contains an operator'),
    imports=IMPORTS, case_type='track * str * expect', check_def='',
    generate=gen_programs, run_impl=run_impl, coq_case=coq_case, oracle=oracle_programs,
    nontrivial=lambda c, o: any(ch in c['prog'] for ch in '+-*/^<>{('),
    klass=lambda c, o: ('raises:' + o['err']) if 'err' in o else ('assign' if '=' in c['prog'] else 'value'))


# ------------------------------------------------------------------ stream trees: programs printed from an AST, checked against ordinary arithmetic

PREC = {'<': 1, '>': 1, '+': 2, '-': 2, '*': 4, '/': 4, '^': 6}
TNAMES = ['a', 'b', 's', 'x', 'y', 'z', 'idx']
AGG = ['SUM', 'AVG', 'MIN', 'MAX']


class Undefined(Exception):
    pass


def lit_only(e):
    k = e[0]
    if k == 'lit':
        return True
    if k == 'name':
        return False
    if k in ('par', 'neg'):
        return lit_only(e[1])
    if k == 'fun':
        return False
    return lit_only(e[2]) and lit_only(e[3])


def gen_tree(rng, d, top=True):
    if top and rng.random() < 0.12:                                    # an aggregate directly over a feature, alone or inside arithmetic
        t = ['fun', rng.choice(AGG), ['name', rng.choice(['a', 'b', 's'])]]
        return t if rng.random() < 0.5 else ['bin', rng.choice(['+', '-', '*']), t, gen_tree(rng, 1, False)]
    if top and rng.random() < 0.06:
        # a long expression: more than ten elementary operations (every one of them leaves an intermediate result that the evaluation must clean up), sometimes with an aggregate at the end
        t = ['name', rng.choice(['a', 'b', 's'])]
        for _ in range(rng.randint(10, 13)):
            t = ['bin', rng.choice(['+', '-', '+', '*']), t, rng.choice([['name', rng.choice(['a', 'b', 's'])], ['lit', rng.choice(['1', '2', '0.5'])]])]
        if rng.random() < 0.4:
            t = ['bin', '+', t, ['fun', rng.choice(AGG), ['name', rng.choice(['a', 'b', 's'])]]]
        return t
    if top and rng.random() < 0.1:
        # aggregates evaluated AFTER other intermediate results of the same expression (a normalisation, a centred sum): every intermediate result is its own value
        nm = lambda: ['name', rng.choice(['a', 'b', 's'])]
        agg = lambda: ['fun', rng.choice(AGG), nm()]
        form = rng.randrange(4)
        if form == 0:
            return ['bin', rng.choice('+-'), ['bin', '*', nm(), ['par', ['bin', '+', nm(), ['lit', '1']]]], agg()]
        if form == 1:
            return ['bin', '-', ['bin', '+', nm(), agg()], agg()]
        if form == 2:
            return ['bin', '+', ['bin', '-', nm(), agg()], ['bin', '*', ['lit', '2'], agg()]]
        return ['bin', '/', ['par', ['bin', '-', nm(), agg()]], ['par', ['bin', '+', ['bin', '-', agg(), agg()], ['lit', '3']]]]
    if top and rng.random() < 0.08:                                    # a pointwise function of a product / quotient of features: zeros of either sign, NaN
        inner = ['bin', rng.choice(['*', '*', '/']), ['name', rng.choice(['a', 'b', 's'])], rng.choice([['name', rng.choice(['a', 'b', 's'])], ['neg', ['lit', rng.choice(['2', '0.5'])]]])]
        return ['fun', rng.choice(['SIGN', 'SIGN', 'ABS', 'DIODE']), inner]
    if top and rng.random() < 0.08:                                    # number op feature / feature op number: each has its own operator class (reverse subtraction, reverse division ...)
        f = ['name', rng.choice(['a', 'b', 's'])]; l = ['lit', rng.choice(['2', '3', '0.5', '10'])]
        t = ['bin', rng.choice(['/', '/', '-', '*', '+']), l, f] if rng.random() < 0.6 else ['bin', rng.choice(['/', '-', '*', '+', '^']), f, l]
        return t if rng.random() < 0.6 else ['bin', rng.choice(['+', '-', '*']), t, gen_tree(rng, 1, False)]
    r = rng.random()
    if d == 0 or r < 0.22:
        return ['name', rng.choice(TNAMES)] if rng.random() < 0.7 else ['lit', rng.choice(['2', '3', '0.5', '10', '1', '0', '2', '3', '0.5', '1e3', '2E3', '1.5e2'])]      # other spellings of numbers: exponents (oracle only: the model's lexer reads plain decimals)
    if r < 0.72:
        return ['bin', rng.choice(list(PREC)), gen_tree(rng, d - 1, False), gen_tree(rng, d - 1, False)]
    if r < 0.80:
        return ['neg', gen_tree(rng, d - 1, False)]
    if r < 0.88:
        return ['par', gen_tree(rng, d - 1, False)]
    while True:
        arg = gen_tree(rng, d - 1, False)
        if not lit_only(arg):
            break
    return ['fun', rng.choice(FUN + AGG), arg]                     # aggregates twice as likely: their treatment of undefined values is the part only an oracle sees


def prec(e):
    return PREC[e[1]] if e[0] == 'bin' else 9


def pr(e, rng):
    k = e[0]
    if k in ('name', 'lit'):
        return e[1]
    if k == 'par':
        return '(' + pr_lead(e[1], rng) + ')'
    if k == 'neg':
        return '(-' + (('(' + pr(e[1], rng) + ')') if e[1][0] == 'bin' else pr(e[1], rng)) + ')'
    if k == 'fun':
        return e[1] + rng.choice(['{%s}', '(%s)']) % pr_lead(e[2], rng)
    op = e[1]
    ls = pr(e[2], rng); rs = pr(e[3], rng)
    if prec(e[2]) < PREC[op]:
        ls = '(' + ls + ')'
    if prec(e[3]) <= PREC[op]:
        rs = '(' + rs + ')'
    return ls + op + rs


def pr_lead(e, rng):
    """e printed where a unary sign may stand bare: at the start of the string, after '=', '(' or '{'"""
    bare = lambda x: '-' + (('(' + pr(x, rng) + ')') if x[0] == 'bin' else pr(x, rng))
    if e[0] == 'neg' and rng.random() < 0.6:
        return bare(e[1])
    if e[0] == 'bin' and e[1] in '+-' and e[2][0] == 'neg' and rng.random() < 0.6:
        rs = pr(e[3], rng)
        return bare(e[2][1]) + e[1] + ('(' + rs + ')' if prec(e[3]) <= PREC[e[1]] else rs)
    return pr(e, rng)


def ev(e, env, n):
    k = e[0]
    if k == 'name':
        return list(env[e[1]])
    if k == 'lit':
        return [float(e[1])] * n
    if k == 'par':
        return ev(e[1], env, n)
    if k == 'neg':
        return [0 - v for v in ev(e[1], env, n)]
    if k == 'fun':
        x = ev(e[2], env, n); f = e[1]
        if f == 'D':
            return [nan] + [x[i] - x[i - 1] for i in range(1, n)]
        if f == 'I':
            out = [0.0] * n
            for i in range(1, n):
                out[i] = out[i - 1] + x[i]
            return out
        if f == 'D2':
            return [nan if i in (0, n - 1) else x[i + 1] - 2 * x[i] + x[i - 1] for i in range(n)]
        if f == 'ABS':
            return [abs(v) for v in x]
        if f == 'SIGN':
            return [0.0 if v != v else (1.0 if v >= 0 else -1.0) for v in x]
        if f == 'DIODE':
            return [v if v > 0 else (nan if v != v else 0.0) for v in x]
        vals = [v for v in x if v == v]
        if f == 'SUM':
            return [sum(vals)] * n
        if not vals:
            raise Undefined()
        if f == 'AVG':
            return [sum(vals) / len(vals)] * n
        if f == 'MIN':
            return [min(vals)] * n
        return [max(vals)] * n
    op = e[1]; a = ev(e[2], env, n); b = ev(e[3], env, n); out = []
    for u, v in zip(a, b):
        if op == '+':
            out.append(u + v)
        elif op == '-':
            out.append(u - v)
        elif op == '*':
            out.append(u * v)
        elif op == '/':
            if v == 0:
                if lit_only(e[2]) or lit_only(e[3]):
                    raise Undefined()             # division by a number that is zero, or of a number by a feature holding a zero: an error, excluded
                out.append(nan); continue         # feature / feature: the documented value for a zero denominator is undefined (NaN)
            out.append(u / v)
        elif op == '^':
            # IEEE pow as Python's ** computes it: x ** 0 == 1 and 1 ** y == 1 even for NaN
            if v == 0 or u == 1:
                out.append(1.0); continue
            if v != v or u != u:
                out.append(nan); continue
            if v != int(v) or v < 0 or v > 4 or abs(u) > 50:
                raise Undefined()
            out.append(u ** v)
        elif op == '<':
            out.append(float(u < v))
        else:
            out.append(float(u > v))
    return out


def env_of(case):
    n = len(case['X'])
    env = {'a': [_f(v) for v in case['a']], 'b': [_f(v) for v in case['b']], 's': [_f(v) for v in case['s']], 'x': list(case['X']), 'y': list(case['Y']), 'z': list(case['Z']),
           'idx': [float(i) for i in range(n)]}
    if case.get('extra'):
        env[case['extra'][0]] = [_f(v) for v in case['extra'][1]]
    return env


def gen_trees(rng, n, tier):
    out = []
    while len(out) < n:
        c = rand_track(rng)
        c['np'] = rng.random() < 0.25             # feature values held as numpy.float64 (oracle stream only: numpy turns some Python errors into inf, which the model's error classes do not describe)
        e = gen_tree(rng, rng.randint(1, 4))
        if rng.random() < 0.12:
            # left-to-right grouping is visible only where floating-point addition is not associative: chains of + - (*) without parentheses
            # over values of very different magnitudes; compared exactly with the same operations applied left to right
            SENS = [2.0 ** 53, 1.0, -1.0, 0.1, 0.2, 0.3, 1e16, 3.0, 1e-16, 2.0 ** -30]
            for k in 'abs':
                c[k] = [rng.choice(SENS) for _ in c['X']]
            c['np'] = False; c['exact'] = True
            e = ['name', rng.choice(['a', 'b', 's'])]
            for _ in range(rng.randint(2, 4)):
                e = ['bin', rng.choice(['+', '-', '+', '-', '*']), e, rng.choice([['name', rng.choice(['a', 'b', 's'])], ['lit', rng.choice(['1', '0.1', '3'])]])]
        try:
            exp = ev(e, env_of(c), len(c['X']))
        except Undefined:
            continue
        if any(abs(v) > 1e9 for v in exp if v == v):
            continue
        lhs = rng.choice([None, None, None, 'c', 'a', 'x', 'y', 'z'])
        if rng.random() < 0.2:                    # a fourth feature, under a name close to the reserved ones (substrings of "xyzt", prefixes of keywords) or an ordinary one; often the target
            nm = rng.choice(['xy', 'yz', 'zt', 'xyz', 'xyzt', 'id', 'tx', 'ab', 'p', 'x2', 'inf', 'nan', 'Inf', 'sup', 'pi', 'PI', 'pi', 'e', 'tau', 'E'])        # ... or a name that float() would accept, or the name of a mathematical constant
            c['extra'] = [nm, [rng.choice([1, 2, -1, 0.5, 7]) for _ in c['X']]]
            lhs = rng.choice([nm, nm, nm, None, 'c'])
            if rng.random() < 0.5 and not c.get('exact'):        # the fourth feature as an operand
                floaty = nm in ('inf', 'nan', 'Inf')        # such a token next to a number is read as a number by the grammar itself: only feature operands beside it
                e = ['bin', rng.choice(['+', '-', '*', '<', '>']), rng.choice([['name', rng.choice(['a', 'b', 's', 'x', 'idx'])], ['name', 'a'] if floaty else e]), ['name', nm]] if rng.random() < 0.5 else \
                    ['bin', rng.choice(['+', '-', '*', '<', '>']), ['name', nm], ['name', rng.choice(['a', 'b', 's', 'x'])]]
                lhs = rng.choice([None, None, 'c', nm])
        s = pr_lead(e, rng)
        if rng.random() < 0.15:
            s = ' ' + s.replace('+', ' + ').replace('(', '( ')
        c['tree'] = e; c['lhs'] = lhs; c['prog'] = (lhs + '=' if lhs else '') + s
        out.append(c)
    return out


def close_lists(p, qq):
    return len(p) == len(qq) and all((u is None and v != v) or (u is not None and v == v and abs(u - v) <= 1e-9 * (1 + abs(v))) for u, v in zip(p, qq))


def oracle_trees(case, obs):
    if 'exc' in obs or 'err' in obs:
        return 'operate(%r) raised %s' % (case['prog'], obs.get('exc', obs.get('err')))
    env = env_of(case)
    n = len(case['X'])
    exp = ev(case['tree'], env, n)
    lhs = case['lhs']
    names = obs['names']
    cols = dict(zip(names, obs['cols']))
    if any(k != len(names) for k in obs['nfeat']) or any(nm.startswith('#') for nm in names) or not obs['t_ok']:
        return 'operate(%r): table misaligned, temporaries left or timestamps changed (names %r, per-observation counts %r)' % (case['prog'], names, obs['nfeat'])
    if lhs is None:
        if case.get('exact') and obs['ret'] is not None and [None if v != v else v for v in exp] != obs['ret']:
            return 'operate(%r) returned %r; the operators applied left to right, with the usual precedence, give exactly %r' % (case['prog'], obs['ret'], exp)
        if obs['ret'] is None or not close_lists(obs['ret'], exp):
            return 'operate(%r) returned %r, ordinary arithmetic on the expression tree gives %r' % (case['prog'], obs['ret'], exp)
        base = ['a', 'b', 's'] + ([case['extra'][0]] if case.get('extra') else [])
        if case.get('extra') and not close_lists(cols.get(case['extra'][0], []), [_f(v) for v in case['extra'][1]]):
            return 'operate(%r) without "=" modified feature %r' % (case['prog'], case['extra'][0])
        if names != base or any(not close_lists(cols[k], env[k]) for k in 'abs') or obs['x'] != enc(env['x']) or obs['y'] != enc(env['y']) or obs['z'] != enc(env['z']):
            return 'operate(%r) without "=" modified the track (features %r)' % (case['prog'], names)
        return None
    got = {'x': obs['x'], 'y': obs['y'], 'z': obs['z']}.get(lhs)
    if got is None:
        got = cols.get(lhs)
    if case.get('exact') and got is not None and [None if v != v else v for v in exp] != got:
        return 'after operate(%r) reading %r gives %r; the operators applied left to right, with the usual precedence, give exactly %r' % (case['prog'], lhs, got, exp)
    if got is None or not close_lists(got, exp):
        return 'after operate(%r) reading %r gives %r, the expression evaluates to %r' % (case['prog'], lhs, got, exp)
    expn = ['a', 'b', 's'] + ([case['extra'][0]] if case.get('extra') else []) + (['c'] if lhs == 'c' else [])
    if case.get('extra') and lhs != case['extra'][0] and not close_lists(cols.get(case['extra'][0], []), [_f(v) for v in case['extra'][1]]):
        return 'operate(%r) changed feature %r as a side effect' % (case['prog'], case['extra'][0])
    if sorted(names) != sorted(expn):
        return 'after operate(%r) the features listed are %r, expected %r' % (case['prog'], names, expn)
    for k in 'abs':
        if k != lhs and not close_lists(cols[k], env[k]):
            return 'operate(%r) changed feature %r as a side effect' % (case['prog'], k)
    for k in 'xyz':
        if k != lhs and obs[k] != enc(env[k]):
            return 'operate(%r) changed coordinate %s as a side effect' % (case['prog'], k)
    return None


S_TREES = Stream(
    name='trees', budget={'quick': 900, 'thorough': 25000},
    rule=('expression trees to depth 4 over a b s x y z idx, literals, + - * / ^ < >, unary minus, redundant parentheses, the ten functions; printed with exactly the parentheses precedence and left '
          'associativity require (plus redundant ones and spaces), optionally assigned to a new name, an existing feature or a coordinate x / y / z; trees whose ordinary evaluation divides by '
          'zero or leaves the exponent domain are rejected by the generator; oracle: an independent tree evaluator; non-trivial = the tree has at least one operator or function'),
    imports=IMPORTS, case_type='track * str * expect', check_def='',
    generate=gen_trees, run_impl=run_impl, coq_case=coq_case, oracle=oracle_trees,
    nontrivial=lambda c, o: c['tree'][0] not in ('name', 'lit'), klass=lambda c, o: 'lhs=%s' % c['lhs'])


# ------------------------------------------------------------------ stream objects: operator objects agree with the expression nodes (oracle only)

OBJ = [('ADDER', '+'), ('SUBSTRACTER', '-'), ('MULTIPLIER', '*'), ('DIVIDER', '/')]
UOBJ = [('DIFFERENTIATOR', 'D'), ('INTEGRATOR', 'I'), ('RECTIFIER', 'ABS'), ('DIODE', 'DIODE'), ('SIGN', 'SIGN')]
AOBJ = [('SUM', 'SUM'), ('AVERAGER', 'AVG'), ('MIN', 'MIN'), ('MAX', 'MAX')]


def gen_objects(rng, n, tier):
    out = []
    for _ in range(n):
        c = rand_track(rng)
        c['kind'] = rng.choice(['bin', 'un', 'agg', 'scalar'])
        c['op'] = rng.choice({'bin': OBJ, 'un': UOBJ, 'agg': AOBJ, 'scalar': OBJ[:3]}[c['kind']])
        c['k'] = rng.choice([2.0, 0.5, 3.0])
        out.append(c)
    return out


def run_objects(case):
    from tracklib.core.operators import Operator
    tr = mk_track(case)
    name, sym = case['op']
    op = getattr(Operator, ('SCALAR_' + name) if case['kind'] == 'scalar' else name)
    if case['kind'] == 'bin':
        tr.operate(op, 'a', 'b', 'out')
        direct = enc(tr['out']); expr = enc(mk_track(case).operate('a%sb' % sym))
    elif case['kind'] == 'un':
        tr.operate(op, 'a', 'out')
        direct = enc(tr['out']); expr = enc(mk_track(case).operate('%s{a}' % sym))
    elif case['kind'] == 'agg':
        v = tr.operate(op, 'a')
        direct = enc([v] * tr.size()); expr = enc(mk_track(case).operate('%s(a)' % sym))
    else:
        tr.operate(op, 'a', case['k'], 'out')
        direct = enc(tr['out']); expr = enc(mk_track(case).operate('a%s%s' % (sym, case['k'])))
    return {'direct': direct, 'expr': expr}


def oracle_objects(case, obs):
    if 'exc' in obs:
        if obs['exc'] == 'ZeroDivisionError' and case['kind'] == 'agg' and all(v is None for v in case['a']):
            return None
        return 'operator object %s raised %s' % (case['op'][0], obs['exc'])
    if not close_lists(obs['direct'], [_f(v) for v in obs['expr']]):
        return 'Operator.%s applied directly gives %r, the expression gives %r' % (case['op'][0], obs['direct'], obs['expr'])
    return None


S_OBJECTS = Stream(
    name='objects', budget={'quick': 300, 'thorough': 6000},
    rule='operator objects ADDER SUBSTRACTER MULTIPLIER DIVIDER, SCALAR_ADDER/SUBSTRACTER/MULTIPLIER, DIFFERENTIATOR INTEGRATOR RECTIFIER DIODE SIGN, SUM AVERAGER MIN MAX applied directly, against the corresponding expression node; oracle only',
    imports=IMPORTS, case_type='track * str * expect', check_def='',
    generate=gen_objects, run_impl=run_objects, coq_case=lambda c, o: None, oracle=oracle_objects,
    klass=lambda c, o: c['kind'])

STREAMS = [S_PROGRAMS, S_TREES, S_OBJECTS]
