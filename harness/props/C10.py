"""C10 - map-matched positions lie on a real edge within the search radius"""
import math, sys
from fractions import Fraction as F
from core import Stream, fl, coq_list

import genmodels
generated_model = genmodels.geometry_generated_model      # the projection on a candidate edge goes through geometry.proj_segment: its translation from the source is re-checked here too

PROP = 'C10'
THEOREM_FILE = 'Props/C10.v'
NOTES = ['soundness only (the property): completeness of the candidate search is the business of C08; the candidate list returned by the spatial index is an arbitrary list in the theorems',
         'theorem guard poly_defined: on a VERTICAL segment the code raises ZeroDivisionError when the observation lies on the supporting line (same root cause as the open C20 finding, listed for C10 as "vertical-collinear"); '
         'vertical segments are otherwise covered (the end-point branch)',
         'edges carry the abs_curv column (computeAbsCurv, as NetworkReader and the repository test do); abs_ok is checked by the oracle on every generated network',
         'exp / log of the emission and transition models and Network.distanceBtwPts are not modelled: they choose among the states, they cannot create one (inference_sound)']


def _mods():
    import matplotlib
    matplotlib.use('Agg')
    import tracklib.algo.mapping as M
    return M


def rand_network(rng):
    """small grid-like or random planar network; horizontal, vertical, oblique and multi-vertex edges"""
    kind = rng.choice(['grid', 'grid', 'random'])
    step = rng.choice([10.0, 10.0, 7.5, 12.25])
    nx, ny = rng.randint(2, 3), rng.randint(2, 3)
    jit = (lambda: 0.0) if kind == 'grid' else (lambda: rng.uniform(-3, 3))
    nodes = {}
    for i in range(nx):
        for j in range(ny):
            nodes[(i, j)] = (round(i * step + jit(), 3), round(j * step + jit(), 3))
    edges = []
    def add(a, b):
        if rng.random() < 0.4:                                           # stored from east to west / north to south as often as the other way
            a, b = b, a
        pa, pb = nodes[a], nodes[b]
        geom = [pa]
        for _ in range(rng.choice([0, 0, 1, 2])):                       # intermediate vertices, off the straight line or on it
            t = rng.uniform(0.2, 0.8)
            off = rng.choice([0.0, rng.uniform(-2, 2)])
            geom.append((round(pa[0] + t * (pb[0] - pa[0]) + off, 3), round(pa[1] + t * (pb[1] - pa[1]) + (off if pa[0] != pb[0] else 0.0), 3)))
        if len(geom) > 2:
            geom[1:] = sorted(geom[1:], key=lambda p: (p[0] - pa[0]) ** 2 + (p[1] - pa[1]) ** 2)
        geom.append(pb)
        if rng.random() < 0.15:                                         # a repeated vertex (zero-length segment), as after snapping a junction onto a vertex
            k = rng.randrange(len(geom))
            geom.insert(k, geom[k])
        edges.append({'s': '%d_%d' % a, 't': '%d_%d' % b, 'geom': [list(p) for p in geom], 'o': rng.choice([0, 0, 1, -1])})
    for i in range(nx):
        for j in range(ny):
            if i + 1 < nx and rng.random() < 0.85:
                add((i, j), (i + 1, j))
            if j + 1 < ny and rng.random() < 0.85:
                add((i, j), (i, j + 1))
            if i + 1 < nx and j + 1 < ny and rng.random() < 0.3:
                add((i, j), (i + 1, j + 1))
    if not edges:
        add((0, 0), (1, 0))
    if rng.random() < 0.25:                                             # a loop edge (roundabout, cul-de-sac loop): closed geometry, one node at both ends
        a = rng.choice(sorted(nodes)); pa = nodes[a]; r = rng.choice([2.0, 3.5, 5.0])
        geom = [pa, (round(pa[0] + r, 3), round(pa[1] + 0.5, 3)), (round(pa[0] + r, 3), round(pa[1] + r, 3)), (round(pa[0] - 0.5, 3), round(pa[1] + r, 3)), pa]
        edges.append({'s': '%d_%d' % a, 't': '%d_%d' % a, 'geom': [list(p) for p in geom], 'o': rng.choice([0, 1, -1])})
    return edges


def rand_obs(rng, edges, radius, collinear):
    e = rng.choice(edges)
    k = rng.randrange(len(e['geom']) - 1)
    (x1, y1), (x2, y2) = e['geom'][k], e['geom'][k + 1]
    t = rng.choice([0.0, 1.0, 0.5, rng.uniform(0, 1), rng.uniform(-0.2, 1.2)])
    px, py = x1 + t * (x2 - x1), y1 + t * (y2 - y1)
    L = math.hypot(x2 - x1, y2 - y1) or 1.0
    nxv, nyv = -(y2 - y1) / L, (x2 - x1) / L
    r = rng.random()
    if r < 0.25:
        off = 0.0                                                   # on the network
    elif r < 0.7:
        off = rng.uniform(-0.9, 0.9) * radius                        # near
    elif r < 0.85:
        off = rng.choice([-1, 1]) * radius * rng.choice([1.0, 1.0001, 0.9999])    # at the radius
    else:
        off = rng.uniform(2, 6) * radius * rng.choice([-1, 1])      # far (possibly outside the index)
    x, y = px + off * nxv, py + off * nyv
    if x1 == x2 and not collinear and x == x1:
        x += 0.125                                                  # keep off the supporting line of a vertical segment (open finding) unless asked for
    return [x, y]


def gen(rng, n, tier):
    out = []
    for _ in range(n):
        while True:                                                 # the index needs an extent of at least one cell in both directions
            edges = rand_network(rng)
            xs = [p[0] for e in edges for p in e['geom']]; ys = [p[1] for e in edges for p in e['geom']]
            if max(xs) - min(xs) >= 7 and max(ys) - min(ys) >= 7:
                break
        radius = rng.choice([1.0, 2.5, 4.0, 6.0, 15.0])
        collinear = rng.random() < 0.08
        ntr = rng.choice([1, 1, 1, 2])
        tracks = [[rand_obs(rng, edges, radius, collinear) for _ in range(rng.randint(1, 5))] for _ in range(ntr)]
        if rng.random() < 0.3:
            # a receiver creeping away from a road by hundredths of a millimetre per fix, across the search radius: every fix is matched, or flagged, for itself
            e = rng.choice(edges); k = rng.randrange(len(e['geom']) - 1)
            (x1, y1), (x2, y2) = e['geom'][k], e['geom'][k + 1]
            L = math.hypot(x2 - x1, y2 - y1)
            if L > 0 and x1 != x2:
                t = rng.uniform(0.3, 0.7); sgn = rng.choice([-1, 1])
                nxv, nyv = -(y2 - y1) / L * sgn, (x2 - x1) / L * sgn
                px, py = x1 + t * (x2 - x1), y1 + t * (y2 - y1)
                tracks[-1] = tracks[-1] + [[px + (radius + d) * nxv, py + (radius + d) * nyv] for d in (-3e-5, 3e-5, 9e-5, 1.5e-4)]
        if not collinear:                                           # no observation exactly on a vertical supporting line
            xs = {g[0][0] for e in edges for g in [e['geom']] for a, b in zip(g, g[1:]) if a[0] == b[0]}
            xs |= {a[0] for e in edges for a, b in zip(e['geom'], e['geom'][1:]) if a[0] == b[0]}
            for tr in tracks:
                for o in tr:
                    if o[0] in xs:
                        o[0] += 0.125
        if rng.random() < 0.4:                                          # vertices with altitudes: along-edge distances stay planimetric (abs_curv is 2-D)
            for e in edges:
                e['z'] = [float(rng.randint(0, 60)) for _ in e['geom']]
        out.append({'edges': edges, 'tracks': tracks, 'radius': radius, 'tmode': rng.choice(['inc', 'inc', 'equal', 'dec', 'shuffle']), 'prior': rng.choice([None, None, [4.0, 1.0], [0.25, 3.0], [8.0, 0.5]]), 'noise': rng.choice([1.0, 5.0, 50.0]),
                    'res': rng.choice([None, [3, 3], [5, 1], [2.5, 7], [1.5, 1.5]]), 'margin': rng.choice([0.05, 0.15, 0.5]), 'densify': rng.random() < 0.3, 'snap': rng.random() < 0.25})
    return out


def build(case, _dense=False):
    from tracklib import Obs, ObsTime, ENUCoords, Track, Network, Node, Edge, SpatialIndex, computeAbsCurv
    net = Network()
    # snapped junctions: the node of a junction is a few decimetres away from the digitised ends of the roads that meet there; distances along an edge are measured on its geometry
    snap = (lambda c: ENUCoords(c.getX() + 0.25, c.getY() - 0.15, c.getZ())) if case.get('snap') else (lambda c: c)
    for k, e in enumerate(case['edges']):
        tr = Track([Obs(ENUCoords(x, y, z)) for (x, y), z in zip(e['geom'], e.get('z') or [0.0] * len(e['geom']))])
        computeAbsCurv(tr)
        ed = Edge(k + 1, tr); ed.orientation = e['o']; ed.weight = tr.length()
        net.addEdge(ed, Node(e['s'], snap(tr.getFirstObs().position)), Node(e['t'], snap(tr.getLastObs().position)))
    if case.get('densify') and not _dense:
        # the network was digitised more finely (an extra vertex near the middle of every segment) and is generalised with the documented Network.simplify() before use, the abscissas being
        # computed afterwards as for any network: the edges of the network are whatever polylines the simplification returned (reported with the observations and used by the model and the oracle).
        net2 = Network()
        for k, e in enumerate(case['edges']):
            zz = e.get('z') or [0.0] * len(e['geom'])
            pts = []
            for i, ((x, y), z) in enumerate(zip(e['geom'], zz)):
                if i > 0:
                    (x0, y0), z0 = e['geom'][i - 1], zz[i - 1]
                    L = math.hypot(x - x0, y - y0) or 1.0        # the extra vertex lies 0.2 off the chord: within the tolerance of the generalisation, but not on the line
                    pts.append(((x0 + x) / 2 - 0.2 * (y - y0) / L, (y0 + y) / 2 + 0.2 * (x - x0) / L, z0))
                pts.append((x, y, z))
            tr = Track([Obs(ENUCoords(x, y, z)) for x, y, z in pts])
            computeAbsCurv(tr)
            ed = Edge(k + 1, tr); ed.orientation = e['o']; ed.weight = tr.length()
            net2.addEdge(ed, Node(e['s'], snap(tr.getFirstObs().position)), Node(e['t'], snap(tr.getLastObs().position)))
        net2.simplify(0.3)
        net = net2
        for k in range(len(case['edges'])):
            computeAbsCurv(net.EDGES[net.getEdgeId(k)].geom)
    net.spatial_index = SpatialIndex(net, resolution=tuple(case['res']) if case['res'] else None, margin=case['margin'], verbose=False)
    net.prepare(verbose=False)
    tm = case.get('tmode', 'inc')                 # timestamps: increasing, all equal, decreasing (a reversed track), or out of order
    def stamp(i, n):
        return 1000 + {'inc': 7 * i, 'equal': 0, 'dec': 7 * (n - i), 'shuffle': (7 * i * 5) % 11}[tm]
    tracks = [Track([Obs(ENUCoords(x, y, 0), ObsTime.readUnixTime(stamp(i, len(t)))) for i, (x, y) in enumerate(t)]) for t in case['tracks']]
    return net, tracks


def run(case):
    from tracklib import TrackCollection, mapOnNetwork
    M = _mods()
    net, tracks = build(case)
    before = [[[o.position.getX(), o.position.getY(), o.position.getZ(), o.timestamp.toAbsTime()] for o in t] for t in tracks]
    geoms = [[[o.position.getX(), o.position.getY()] for o in net.EDGES[net.getEdgeId(k)].geom] for k in range(len(case['edges']))]
    try:
        if case.get('prior'):                         # the same track objects were already map-matched with other parameters (a radius / noise sweep)
            mapOnNetwork(tracks[0] if len(tracks) == 1 else TrackCollection(tracks), net, gps_noise=case['noise'] * case['prior'][1], search_radius=case['radius'] * case['prior'][0])
        mapOnNetwork(tracks[0] if len(tracks) == 1 else TrackCollection(tracks), net, gps_noise=case['noise'], search_radius=case['radius'])
    except Exception as ex:                           # reported with the geometry the network had (the open finding is recognised on it)
        return {'exc': type(ex).__name__, 'msg': str(ex)[:200], 'geom': geoms}
    st = lambda s: [[s[0].getX(), s[0].getY()], s[1], s[2], s[3]]
    inf = [[st(t['hmm_inference', k]) for k in range(len(t))] for t in tracks]
    after = [[[o.position.getX(), o.position.getY(), o.position.getZ(), o.timestamp.toAbsTime()] for o in t] for t in tracks]
    # the candidate lists of the LAST track (module global) and what the index returned for each of its observations
    states = [[st(s) for s in S] for S in M.STATES]
    si = net.spatial_index
    unit = math.ceil(case['radius'] / min(si.csize, si.lsize))
    Es = []
    for o in tracks[-1]:
        E = si.neighborhood(o.position, unit=unit)
        Es.append([int(e) for e in E] if E is not None else [])
    absc = []
    for k in range(len(case['edges'])):
        g = net.EDGES[net.getEdgeId(k)].geom
        absc.append([g['abs_curv', i] for i in range(len(g))])
    return {'inf': inf, 'before': before, 'after': after, 'states': states, 'E': Es, 'abs': absc, 'geom': geoms}


def edges_of(case, obs):
    """the edges the network really had when the tracks were matched: those of the case, or (densified networks) what Network.simplify() made of them"""
    if not case.get('densify') or 'geom' not in obs:
        return case['edges']
    return [dict(e, geom=g) for e, g in zip(case['edges'], obs['geom'])]


def pt(p):
    return '(%s, %s)' % (fl(p[0]), fl(p[1]))


def cstate(s):
    return '(%s, %s, %s, %s)' % (pt(s[0]), 'None' if s[1] < 0 else '(Some %d%%nat)' % s[1], fl(s[2]), fl(s[3]))


def coq_case(case, obs):
    if 'exc' in obs:
        return None
    edges = coq_list('{| egeom := %s; eabs := %s |}' % (coq_list(pt(p) for p in e['geom']), coq_list(fl(v) for v in a)) for e, a in zip(edges_of(case, obs), obs['abs']))
    rows = coq_list('(%s, %s, %s, %s)' % (pt(o), coq_list('%d%%nat' % e for e in E), coq_list(cstate(s) for s in S), cstate(i))
                    for o, E, S, i in zip(case['tracks'][-1], obs['E'], obs['states'], obs['inf'][-1]))
    if len(obs['states']) != len(case['tracks'][-1]):                  # not one candidate list per observation of the last track: a row the model cannot satisfy
        rows = rows[:-1] + ('; ' if rows != '[]' else '') + '((0, 0), [], [], ((0, 0), None, 0, 0))]'
    return '(%s, %s, %s)' % (fl(case['radius']), edges, rows)


CHECK = '''Definition close (a b : float) : bool := PrimFloat.leb (PrimFloat.abs (a - b)) (0x1p-30 * (1 + PrimFloat.abs a))%float.
Definition st_eq (s : @state float) (e : (float * float) * option nat * float * float) : bool :=
  let '(p, ed, d0, d1) := e in
  PrimFloat.eqb (fst (spt s)) (fst p) && PrimFloat.eqb (snd (spt s)) (snd p)
  && (match sedge s, ed with Some a, Some b => Nat.eqb a b | None, None => true | _, _ => false end)
  && close (sd0 s) d0 && close (sd1 s) d1.
Fixpoint all2 (l : list (@state float)) (e : list ((float * float) * option nat * float * float)) : bool :=
  match l, e with [], [] => true | s :: l', x :: e' => st_eq s x && all2 l' e' | _, _ => false end.
Definition ok (c : float * list (@edge float) * list ((float * float) * list nat * list ((float * float) * option nat * float * float) * ((float * float) * option nat * float * float))) : bool :=
  let '(radius, edges, rows) := c in
  forallb (fun '(o, E, expected, inferred) =>
    match states FNum 0x1.cd2b297d889bcp-54%float radius edges o E with      (* 1e-16 *)
    | Some l => all2 l expected && existsb (fun s => st_eq s inferred) l
    | None => false
    end) rows.'''


# ------------------------------------------------------------------ oracle: the statement, with independent geometry

def seg_dist(p, a, b):
    ax, ay, bx, by = a[0], a[1], b[0], b[1]
    L2 = (bx - ax) ** 2 + (by - ay) ** 2
    t = 0.0 if L2 == 0 else max(0.0, min(1.0, ((p[0] - ax) * (bx - ax) + (p[1] - ay) * (by - ay)) / L2))
    return math.hypot(p[0] - (ax + t * (bx - ax)), p[1] - (ay + t * (by - ay))), t


def along(geom, p):
    """(distance from p to the polyline, abscissa of the nearest point from the first vertex, total length)"""
    best = None; s = 0.0
    for a, b in zip(geom, geom[1:]):
        d, t = seg_dist(p, a, b)
        L = math.hypot(b[0] - a[0], b[1] - a[1])
        if best is None or d < best[0] - 1e-12:
            best = (d, s + t * L)
        s += L
    return best[0], best[1], s


def will_raise(case, obs=None):
    """an observation on the supporting line of a vertical segment, where the code divides by b = 0 (open finding)"""
    for tr in case['tracks']:
        for o in tr:
            for e in (edges_of(case, obs) if obs else case['edges']):
                for a, b in zip(e['geom'], e['geom'][1:]):
                    if a[0] == b[0] and o[0] == a[0] and a[1] != b[1]:
                        v = b[1] - a[1]
                        if min(a[1], b[1]) <= v <= max(a[1], b[1]):
                            return True
    return False


def oracle(case, obs):
    if 'exc' in obs:
        return 'mapOnNetwork raised %s %s' % (obs['exc'], obs.get('msg', ''))
    if obs['before'] != obs['after']:
        return 'map-matching changed the observations: %r -> %r' % (obs['before'], obs['after'])
    for e, a in zip(edges_of(case, obs), obs['abs']):                         # the abs_ok hypothesis of the theorem
        s = 0.0
        for i, (p, q) in enumerate(zip(e['geom'], e['geom'][1:])):
            s += math.hypot(q[0] - p[0], q[1] - p[1])
            if abs(a[i + 1] - s) > 1e-9 * (1 + s):
                return 'abs_curv column of edge %r is %r, running length %r' % (e['geom'], a, s)
        if a[0] != 0:
            return 'abs_curv column of edge %r starts at %r' % (e['geom'], a[0])
    R = case['radius']
    for ti, (tr, inf) in enumerate(zip(case['tracks'], obs['inf'])):
        if len(inf) != len(tr):
            return 'track %d has %d observations and %d inferred states' % (ti, len(tr), len(inf))
        for k, (o, s) in enumerate(zip(tr, inf)):
            p, e, d0, d1 = s
            if e == -1:
                continue                                                # flagged as unmatched
            if not (isinstance(e, int) and 0 <= e < len(case['edges'])):
                return 'track %d observation %d is matched to edge number %r, the network has %d edges' % (ti, k, e, len(case['edges']))
            geom = edges_of(case, obs)[e]['geom']
            dp, sp, L = along(geom, p)
            if dp > 1e-6:
                return 'track %d observation %d %r is matched to %r which is %.3g away from the geometry of edge %d' % (ti, k, o, p, dp, e)
            if math.hypot(o[0] - p[0], o[1] - p[1]) > R + 1e-9:
                return 'track %d observation %d %r is matched to %r on edge %d, %.6g away: farther than the search radius %r' % (ti, k, o, p, e, math.hypot(o[0] - p[0], o[1] - p[1]), R)
            if abs(d0 + d1 - L) > 1e-6 * (1 + L):
                return 'track %d observation %d: distances to the end nodes %r + %r do not add up to the length %r of edge %d' % (ti, k, d0, d1, L, e)
            at_closure = geom[0] == geom[-1] and math.hypot(p[0] - geom[0][0], p[1] - geom[0][1]) < 1e-9 and (abs(d0) <= 1e-6 * (1 + L) or abs(d0 - L) <= 1e-6 * (1 + L))
            # (the closing vertex of a loop edge is at abscissa 0 and at abscissa L: either is the distance to the source along the edge)
            if abs(d0 - sp) > 1e-6 * (1 + L) and not at_closure and not any(abs(math.hypot(p[0] - v[0], p[1] - v[1])) < 1e-9 for v in geom[1:-1]) :
                return 'track %d observation %d: distance to the source %r, measured along edge %d it is %r' % (ti, k, d0, e, sp)
    return None


def finding_key(case, obs, why):
    if obs.get('exc') == 'ZeroDivisionError' and will_raise(case, obs):
        return 'vertical-collinear'
    return None


def shrink(case):
    for i in range(len(case['tracks'])):
        if len(case['tracks']) > 1:
            yield dict(case, tracks=case['tracks'][:i] + case['tracks'][i + 1:])
        for k in range(len(case['tracks'][i])):
            if len(case['tracks'][i]) > 1:
                t = [list(x) for x in case['tracks']]; t[i] = t[i][:k] + t[i][k + 1:]
                yield dict(case, tracks=t)
    for i in range(len(case['edges'])):
        if len(case['edges']) > 1:
            edges = case['edges'][:i] + case['edges'][i + 1:]
            xs = [p[0] for e in edges for p in e['geom']]; ys = [p[1] for e in edges for p in e['geom']]
            if max(xs) - min(xs) >= 7 and max(ys) - min(ys) >= 7:       # keep the generator's precondition (an index of at least one cell)
                yield dict(case, edges=edges)


S = Stream(
    name='mapmatch', budget={'quick': 250, 'thorough': 6000}, shard=25,
    rule=('grid-like (exact integer / decimal coordinates, horizontal and vertical edges) and jittered planar networks of 2x2..3x3 nodes with oblique diagonals, 0..2 intermediate vertices per edge, three orientations; '
          'spatial index with the default and four explicit resolutions incl. non-square cells, three margins; 1 or 2 tracks (TrackCollection) of 1..5 observations on / near / exactly at / far from the network; '
          'radii 1..15, noise 1..50; 8% of the cases put observations on the supporting line of vertical segments (open finding); observed: mapping.STATES and what the index returned for the last track '
          '(compared with the binary64 instance of the model, inferred state must be one of the model states), hmm_inference of every track and the observations before / after (oracle)'),
    imports='From Coq Require Import List Bool Arith PrimFloat.\nImport ListNotations.\nFrom TL Require Import Model.Num Model.Geom Model.MapMatch.\nOpen Scope float_scope.',
    case_type='float * list (@edge float) * list ((float * float) * list nat * list ((float * float) * option nat * float * float) * ((float * float) * option nat * float * float))',
    check_def=CHECK, generate=gen, run_impl=run, coq_case=coq_case, oracle=oracle, finding_key=finding_key, shrink=shrink,
    nontrivial=lambda c, o: 'inf' in o and any(s[1] >= 0 for t in o['inf'] for s in t),
    klass=lambda c, o: 'exc' if 'exc' in o else ('tracks=%d,matched=%d/%d' % (len(c['tracks']), sum(1 for t in o['inf'] for s in t if s[1] >= 0) > 0, 1)))

STREAMS = [S]
