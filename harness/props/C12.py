"""C12 - optimal partitioning is globally optimal in the requested direction"""
import itertools
from core import Stream, q, coq_list, coq_bool

PROP = 'C12'
THEOREM_FILE = 'Props/C12.v'
NOTES = ['the returned list is compared through the abstraction of the theorem (valid list whose total equals the optimum), so another optimal list is not a disagreement',
         'N = rows - 1 as in the code: the candidates are 0..N-1; matrix entries are small integers / dyadic rationals so float sums are exact']
IMPORTS = 'From Coq Require Import List Arith QArith Bool.\nImport ListNotations.\nFrom TL Require Import Model.Partition.\nOpen Scope Q_scope.'
CHECK = '''Definition cm (m : list (list Q)) : tab Q := fun i j => nth j (nth i m []) 0.
Fixpoint incr (l : list nat) : bool := match l with a :: ((b :: _) as r) => (a <? b)%nat && incr r | _ => true end.
Definition validb (N : nat) (l : list nat) : bool := incr l && (hd 1%nat l =? 0)%nat && (last l 0%nat =? N - 1)%nat.
Definition ok (c : bool * nat * list (list Q) * list nat) : bool :=
  let '(minimise, N, m, out) := c in
  validb N out && Qeq_bool (chain_cost (cm m) out) (chain_cost (cm m) (optimal_partition minimise N (cm m))).'''


def sym_matrix(n, vals, rng=None, flat=None):
    C = [[0] * n for _ in range(n)]
    it = iter(flat) if flat is not None else None
    for i in range(n):
        for j in range(i, n):
            v = next(it) if it is not None else rng.choice(vals)
            C[i][j] = v
            C[j][i] = v
    return C


def generate(rng, n, tier):
    out = []
    if tier == 'thorough':
        for rows, vals in ((3, (0, 1, 2)), (4, (0, 1, 2)), (5, (0, 1))):
            cells = rows * (rows + 1) // 2
            for flat in itertools.product(vals, repeat=cells):
                for mode in (0, 1):
                    out.append({'C': sym_matrix(rows, None, flat=flat), 'mode': mode})
    for _ in range(n):
        rows = rng.randint(3, 10)
        vals = rng.choice([[0, 1, 2], [1, 3, 4, 9, 20], [0, 5], [0.5, 0.25, 1.75, 3],
                           [10 ** 8, 10 ** 8 + 1, 10 ** 8 + 3, 2 * 10 ** 8 + 1, 3],          # large constant + small detail: near-tied totals
                           [2 ** 24 + 1, 2 ** 24 + 3, 2 ** 25 + 1, 1], [2.0 ** -20, 1 + 2.0 ** -20, 2, 1],
                           [2 ** 24 + 2, 2 ** 24 + 4, 1, 2, 2 ** 25 + 4], [2 ** 24 + 2, 2 ** 24 + 4, 1, 2, 2 ** 25 + 4],       # exact in single precision, their sums are not
                           [1000.0, 1000.25, 2000.5, 0.125, 3000.0],
                           [-2, -1, 0, 1, 3], [-0.5, -4, 2, 0.25], [-1, -3],                      # rewards minus penalties: negative entries
                           [0, 2.0 ** -40, 2.0 ** -39], [2.0 ** -40, 3 * 2.0 ** -40, 2.0 ** -38, 0]])     # tiny scale (exact in binary): the optimum does not depend on the unit
        out.append({'C': sym_matrix(rows, vals, rng), 'mode': rng.choice([0, 1]), 'twice': rng.random() < 0.3, 'dtype': rng.choice(['float', 'float', 'int', 'bool', 'float32', 'float32'])})
    for _ in range(max(40, n // 8)):
        # small single-precision matrices whose entries are exact in float32 while sums of two or three of them are not (2^24 + 2 plus 1): the optimum is that of the exact sums
        rows = rng.randint(3, 5)
        vals = rng.choice([[2 ** 24 + 2, 2 ** 24 + 4, 1, 2, 2 ** 24 + 6, 3], [2 ** 24 + 2, 2 ** 24 + 4, 1, 2 ** 25 + 4, 2 ** 25 + 8], [1000.0 * 2 ** 14, 1000.0 * 2 ** 14 + 2, 1, 3, 1000.0 * 2 ** 15 + 4]])
        out.append({'C': sym_matrix(rows, vals, rng), 'mode': rng.choice([0, 1]), 'twice': False, 'dtype': 'float32'})
    return out


def run_impl(case):
    import sys, numpy as np, tracklib.algo.segmentation
    sg = sys.modules['tracklib.algo.segmentation']
    C = case['C']
    dt = case.get('dtype', 'float')
    ints = all(float(v) == int(v) for r in C for v in r)
    if dt == 'bool' and not all(v in (0, 1) for r in C for v in r) or dt == 'int' and not ints:
        dt = 'float'
    if dt == 'float32' and not all(float(np.float32(v)) == float(v) for r in C for v in r):
        dt = 'float'
    M = np.array(C, dtype={'float': float, 'int': np.int64, 'bool': bool, 'float32': np.float32}[dt])          # the same matrix in another numeric representation (a down-cast or GPU-made matrix)
    if case.get('twice'):                         # the caller's matrix object is used for both directions: the first call must leave it as it was
        sg.optimalPartition(M, 1 - case['mode'], False)
    out = sg.optimalPartition(M, case['mode'], False)
    return {'out': [int(v) for v in out], 'kept': bool((np.array(M, dtype=float) == np.array(C, dtype=float)).all())}


def coq_case(case, obs):
    if 'exc' in obs:
        return None
    N = len(case['C']) - 1
    return '(%s, %d%%nat, %s, %s%%nat)' % (coq_bool(case['mode'] == 0), N, coq_list(coq_list(q(v) for v in r) for r in case['C']), coq_list(map(str, obs['out'])))


def total(C, l):
    return sum(C[a][b] for a, b in zip(l, l[1:]))


def oracle(case, obs):
    if 'exc' in obs:
        return 'optimalPartition raised %s' % obs['exc']
    C = case['C']
    N = len(C) - 1
    r = obs['out']
    if N < 2:
        return None
    if not r or r[0] != 0 or r[-1] != N - 1 or any(a >= b for a, b in zip(r, r[1:])):
        return 'result %r is not a strictly increasing list from 0 to %d' % (r, N - 1)
    best = None
    inner = list(range(1, N - 1))
    for k in range(len(inner) + 1):
        for mid in itertools.combinations(inner, k):
            t = total(C, [0] + list(mid) + [N - 1])
            if best is None or (t < best if case['mode'] == 0 else t > best):
                best = t
    if total(C, r) != best:
        return 'mode=%s: returned %r totals %r, the %s over all lists from 0 to %d is %r' % (
            'MINIMIZE' if case['mode'] == 0 else 'MAXIMIZE', r, total(C, r), 'minimum' if case['mode'] == 0 else 'maximum', N - 1, best)
    return None


def shrink(case):
    C = case['C']
    if len(C) > 4:
        yield {'C': [row[:-1] for row in C[:-1]], 'mode': case['mode']}
        yield {'C': [row[1:] for row in C[1:]], 'mode': case['mode']}


# ------------------------------------------------------------------ stream segmentation: the delegating function builds the matrix from a cost function

def gen_seg(rng, n, tier):
    out = []
    for _ in range(n):
        k = rng.randint(3, 9)
        vals = rng.choice([[0, 1, 2], [1, 3, 4, 9], [-2, -1, 0, 1, 3], [-0.5, -4, 2, 0.25], [-1, -3, -8], [0.5, 0.25, 1.75, 3]])
        out.append({'K': [[rng.choice(vals) for _ in range(k)] for _ in range(k)], 'mode': rng.choice([0, 1]),
                    'via': rng.choice(['segmentation', 'segmentation', 'simplification', 'simplify']), 'verbose': rng.random() < 0.5, 'glob': rng.choice([None, 7, 0, 0.0, 2.5])})
    return out


def seg_matrix(K):
    # as documented in optimalSegmentation: C[i, j] = cost(track, i, j - 1) for i < n - 2, i <= j < n - 1, zero elsewhere, then C + C^T
    n = len(K)
    C = [[0] * n for _ in range(n)]
    for i in range(n - 2):
        for j in range(i, n - 1):
            C[i][j] = K[i][j]
    return [[C[i][j] + C[j][i] for j in range(n)] for i in range(n)]


def run_seg(case):
    import sys, tracklib.algo.segmentation
    from tracklib.core import ObsTime, ENUCoords, Obs, Track
    sg = sys.modules['tracklib.algo.segmentation']
    K = case['K']
    tr = Track([Obs(ENUCoords(i, 0, 0), ObsTime.readUnixTime(i)) for i in range(len(K))])
    glob = case.get('glob', None if case['mode'] == 0 else 7)          # with and without the global parameter; 0 is a parameter like any other
    cost = (lambda t, i, j: float(K[i][j + 1])) if glob is None else (lambda t, i, j, g: float(K[i][j + 1]))
    via = case.get('via', 'segmentation')
    if via == 'segmentation':
        out = sg.optimalSegmentation(tr, cost, glob, case['mode'], False)
        return {'out': [int(v) for v in out]}
    # the delegating entry points of simplification: the kept observations are the break candidates of the optimal list
    import tracklib.algo.simplification
    sp = sys.modules['tracklib.algo.simplification']
    if via == 'simplification':
        r = sp.optimalSimplification(tr, cost, glob, case['mode'])
    else:
        cost3 = lambda t, i, j: float(K[i][j + 1])
        r = sp.simplify(tr, cost3, sp.MODE_SIMPLIFY_FREE if case['mode'] == 0 else sp.MODE_SIMPLIFY_FREE_MAXIMIZE, verbose=case.get('verbose', True))
    return {'out': [int(r.getObs(i).position.getX()) for i in range(r.size())]}


def with_matrix(f):
    return lambda case, obs: f({'C': seg_matrix(case['K']), 'mode': case['mode']}, obs)


def shrink_seg(case):
    K = case['K']
    if len(K) > 4:
        yield dict(case, K=[row[:-1] for row in K[:-1]])
        yield dict(case, K=[row[1:] for row in K[1:]])


def coq_seg(case, obs):
    if 'exc' in obs:
        return None
    K = case['K']
    return '(%s, %d%%nat, %s, %s%%nat)' % (coq_bool(case['mode'] == 0), len(K), coq_list(coq_list(q(v) for v in r) for r in K), coq_list(map(str, obs['out'])))


S_SEG = Stream(
    name='segmentation', budget={'quick': 300, 'thorough': 3000},
    rule=('optimalSegmentation(track, cost, glob_param, mode), optimalSimplification(track, cost, glob_param, mode) and simplify(track, cost, MODE_SIMPLIFY_FREE / FREE_MAXIMIZE, verbose) on tracks of '
          '3..9 observations with a table-driven cost function (integer / dyadic values, negative ones included, with and without the global parameter), both modes; the returned list is compared '
          'with the model of the delegating function (optimal_segmentation: the matrix is built inside the model from the cost table) through the documented criterion, and with brute force; '
          'non-trivial = at least 4 observations'),
    imports=IMPORTS + '\nFrom TL Require Import Proofs.Partition_seg.', case_type='bool * nat * list (list Q) * list nat',
    check_def='''Fixpoint incr (l : list nat) : bool := match l with a :: ((b :: _) as r) => (a <? b)%nat && incr r | _ => true end.
Definition ok (c : bool * nat * list (list Q) * list nat) : bool :=
  let '(minimise, n, K, out) := c in
  let cost := fun i j => nth (S j) (nth i K []) 0 in        (* cost(track, i, j) = K[i][j+1] *)
  incr out && (hd 1%nat out =? 0)%nat && (last out 0%nat =? n - 2)%nat &&
  Qeq_bool (seg_cost cost out) (seg_cost cost (optimal_segmentation minimise n cost)).''',
    generate=gen_seg, run_impl=run_seg, coq_case=coq_seg, oracle=with_matrix(oracle), shrink=shrink_seg,
    nontrivial=lambda c, o: len(c['K']) >= 4, klass=lambda c, o: '%s,n=%d,mode=%d' % (c.get('via', 'segmentation'), len(c['K']), c['mode']))

# ------------------------------------------------------------------ stream stops: findStopsGlobal builds a reward matrix and maximises

def gen_stops(rng, n, tier):
    out = []
    for _ in range(n):
        k = rng.randint(4, 10)
        xs = []; x = 0
        frac = rng.random() < 0.4                       # steps of quarter metres: extents between the diameter and the next whole number (2.75 against 2.5) exist
        for _ in range(k):                              # a receiver on a straight road: it lingers (steps of 0 / 1) or moves on (steps of 20 .. 40)
            x += rng.choice([0, 1, -1, 1, 0, 25, 40, -30]) if not frac else rng.choice([0, 1, -1, 0.75, -0.75, 1.25, 0.5, 1.75, -1.5, 25, 40, -30])
            xs.append(x)
        zs = [rng.choice([0, 0, 0, 3, 50, -20]) for _ in range(k)]        # heights (a lift, a ramp): the size of a stop is planimetric
        ts = [0]
        sub = rng.random() < 0.3                        # a 2 Hz / 4 Hz receiver: instants with a sub-second part (durations are compared as they are, not truncated to seconds)
        for _ in range(k - 1):
            ts.append(ts[-1] + (rng.choice([5, 10, 10, 20, 60]) if not sub else rng.choice([0.5, 1.5, 2.5, 0.75, 5.25, 10.5, 3.5])))
        out.append({'x': xs, 'z': zs, 't': ts, 'diameter': rng.choice([2.5, 4.5, 10.5]) if not frac else rng.choice([2.6, 4.4, 10.3]), 'duration': rng.choice([7.5, 15.5, 25.5, 65.5]) if not sub else rng.choice([3.1, 5.2, 7.6, 2.1, 10.1])})      # (never a multiple of a quarter second: no tie with a span)
        if rng.random() < 0.3:                          # the documented speed-up: the criterion then applies to the track resampled to size / downsampling points
            down = rng.choice([2, 2, 3])
            xs = []; ts = []; x = 0; t = 0                  # a longer track with lingering phases of a few fixes, so that stops survive the down-sampling
            for _ in range(rng.randint(2, 3)):
                for _ in range(rng.randint(3, 4) * down):
                    x += rng.choice([0, 1, -1, 0]); t += rng.choice([5, 10, 10, 20]); xs.append(x); ts.append(t)
                for _ in range(rng.randint(1, 2) * down):
                    x += rng.choice([25, 40, 30]); t += rng.choice([5, 10]); xs.append(x); ts.append(t)
            xs = xs[:12 * down]; ts = ts[:12 * down]
            out[-1].update({'x': xs, 't': ts, 'z': [rng.choice([0, 0, 0, 3, 50, -20]) for _ in xs], 'down': down})
    return out


def eff(case, obs):
    """the fixes the criterion applies to: the track's own, or those of its down-sampled copy (obtained as documented: track ** (size / downsampling))"""
    return dict(case, x=obs['dx'], t=obs['dt']) if case.get('down', 1) > 1 and 'dx' in obs else case


def stops_matrix(case):
    # as documented in findStopsGlobal: C[i, j] = (j - i)^2 when the enclosing circle of p_i .. p_(j-1) is smaller than the diameter and they span more
    # than the duration, 0 otherwise (i < n - 2, i < j < n - 1), symmetrised; the fixes are collinear, so the enclosing circle's diameter is their extent
    xs, ts = case['x'], case['t']
    n = len(xs)
    C = [[0] * n for _ in range(n)]
    for i in range(n - 2):
        for j in range(i + 1, n - 1):
            seg = xs[i:j]
            if max(seg) - min(seg) < case['diameter'] and ts[j - 1] - ts[i] > case['duration']:
                C[i][j] = (j - i) ** 2
    return [[C[i][j] + C[j][i] for j in range(n)] for i in range(n)]


def run_stops(case):
    import sys, tracklib.algo.segmentation
    from tracklib.core import ObsTime, ENUCoords, Obs, Track
    sg = sys.modules['tracklib.algo.segmentation']
    tr = Track([Obs(ENUCoords(float(x), 0.0, float(z)), ObsTime.readUnixTime(1000 + t)) for x, z, t in zip(case['x'], case['z'], case['t'])])
    import random
    runs = []
    down = case.get('down', 1)
    extra = {}
    if down > 1:
        try:
            t2 = tr.copy()
            t2 **= t2.size() / down
            extra = {'dx': t2.getX(), 'dt': [o.timestamp.toAbsTime() - 1000 for o in t2]}
        except Exception:
            return {'skipped': 'the track cannot be resampled'}
        if len(extra['dx']) < 3 or any(abs((b - a) - case['duration']) < 1e-6 for a in extra['dt'] for b in extra['dt']):
            return {'skipped': 'too short, or a span within rounding of the duration'}
        dx = extra['dx']
        if any(abs((max(dx[i:j]) - min(dx[i:j])) - case['diameter']) < 1e-6 for i in range(len(dx)) for j in range(i + 1, len(dx) + 1)):
            return {'skipped': 'an extent of interpolated positions within rounding of the diameter'}
    for seed in case.get('seeds', range(6)):        # the enclosing-circle routine draws random numbers: the result must not depend on them
        random.seed(seed)
        st = sg.findStopsGlobal(tr, case['diameter'], case['duration'], down, False)
        runs.append([[int(st['id_ini', i]) // down, int(st['id_end', i]) // down, int(st['nb_points', i])] for i in range(st.size())])
    case = eff(case, extra)
    worst = min(runs, key=lambda r: (sum(s[2] ** 2 for s in r), -len(r)))
    odd = next((r for r in runs if r != runs[0]), None)
    return dict(extra, stops=odd if odd is not None and _bad_stops(case, odd) else worst, runs=runs)


def _bad_stops(case, stops):
    C = stops_matrix(case)
    return any(not (0 <= a <= b < len(case['x'])) or b + 1 >= len(C) or C[a][b + 1] != nb ** 2 for a, b, nb in stops)


def coq_stops(case, obs):
    if 'exc' in obs or 'skipped' in obs:
        return None
    case = eff(case, obs)
    return '(%s, %s, %s, %s, %s)' % (coq_list(q(v) for v in case['x']), coq_list(q(v) for v in case['t']), q(case['diameter']), q(case['duration']), q(sum(s[2] ** 2 for s in obs['stops'])))


def oracle_stops(case, obs):
    if 'exc' in obs:
        return 'findStopsGlobal raised %s' % obs['exc']
    if 'skipped' in obs:
        return None
    case = eff(case, obs)
    C = stops_matrix(case)
    N = len(C) - 1
    for a, b, nb in obs['stops']:
        if not (0 <= a <= b < len(case['x'])) or nb != b - a + 1 or C[a][b + 1] != nb ** 2:
            return 'stop over fixes %d..%d (%d points) is not a stop under the documented criterion (extent below %r, more than %r s)' % (a, b, nb, case['diameter'], case['duration'])
    if any(s1[1] >= s2[0] for s1, s2 in zip(obs['stops'], obs['stops'][1:])):
        return 'stops overlap: %r' % obs['stops']
    got = sum(s[2] ** 2 for s in obs['stops'])
    best = 0
    inner = list(range(1, N - 1))
    for k in range(len(inner) + 1):
        for mid in itertools.combinations(inner, k):
            best = max(best, total(C, [0] + list(mid) + [N - 1]))
    if got != best:
        return 'the stops %r realise a reward of %r, the maximum of the documented criterion over all partitions is %r (x %r, t %r, diameter %r, duration %r)' % (obs['stops'], got, best, case['x'], case['t'], case['diameter'], case['duration'])
    return None


S_STOPS = Stream(
    name='stops', budget={'quick': 300, 'thorough': 3000},
    rule=('findStopsGlobal on collinear tracks of 4..10 fixes (the enclosing circle of collinear fixes has their extent for diameter, so the documented reward matrix is computed exactly) '
          'with heights that vary by more than the diameter, diameters and durations at half-integers (no ties); the reward realised by the returned stops is compared with the model\'s '
          'maximum on the documented matrix and with brute force; non-trivial = at least one stop'),
    imports=IMPORTS + '\nFrom TL Require Import Proofs.Partition_seg Proofs.Partition_stops.', case_type='list Q * list Q * Q * Q * Q',
    check_def='''(* collinear fixes: the smallest circle enclosing the fixes a .. b has their extent for diameter *)
Definition qmax (a b : Q) : Q := if Qle_bool a b then b else a.
Definition qmin (a b : Q) : Q := if Qle_bool a b then a else b.
Definition extent (xs : list Q) (a b : nat) : Q := let seg := firstn (S b - a) (skipn a xs) in
  match seg with [] => 0 | x :: r => fold_left qmax r x - fold_left qmin r x end.
Definition ok (c : list Q * list Q * Q * Q * Q) : bool := let '(xs, ts, diameter, duration, got) := c in
  let circle := extent xs in let span := fun a b => nth b ts 0 - nth a ts 0 in
  Qeq_bool (seg_cost (reward circle span diameter duration) (find_stops_partition circle span diameter duration (length xs))) got.''',
    generate=gen_stops, run_impl=run_stops, coq_case=coq_stops, oracle=oracle_stops,
    nontrivial=lambda c, o: bool(o.get('stops')), klass=lambda c, o: 'stops=%d' % len(o.get('stops', [])))

STREAMS = [S_SEG, S_STOPS, Stream(
    name='partition', budget={'quick': 500, 'thorough': 3000},
    rule=('symmetric cost matrices with 3..10 rows over small integer / dyadic value sets, both modes (thorough adds every {0,1,2}-valued matrix with 3 and 4 rows '
          'and every {0,1}-valued one with 5 rows - exhaustive); observed: the list returned by optimalPartition(C, mode, False); brute force over all index lists as oracle; '
          'non-trivial = at least 4 rows (an interior candidate exists)'),
    imports=IMPORTS, case_type='bool * nat * list (list Q) * list nat', check_def=CHECK,
    generate=generate, run_impl=run_impl, coq_case=coq_case, oracle=oracle, shrink=shrink,
    nontrivial=lambda c, o: len(c['C']) >= 4, klass=lambda c, o: 'rows=%d,mode=%d' % (len(c['C']), c['mode']))]
