"""C20 - projection on a polyline returns the nearest point"""
import math
from fractions import Fraction as F
from core import Stream, fl, coq_list

import genmodels
generated_model = genmodels.geometry_generated_model      # second tie: the geometry kernels translated from the source on every run and proved equal to the model

PROP = 'C20'
THEOREM_FILE = 'Props/C20.v'
NOTES = ['the float instance (PrimFloat) of the generic model is compared bit for bit with CPython; the theorems are about the real instance of the same Gallina term',
         'vertical supporting segments (x1 == x2) are the open known finding "vertical-segment" (the repository\'s own test pins the end-point answer); any failure on another segment is a violation',
         'oracle: exact nearest point on the segment with rational arithmetic, distances compared to 1e-8 of the coordinate magnitude; a quarter of the inputs are shifted to projected-coordinate magnitudes (1e5 .. 7e6, two decimals) where one ulp exceeds any fixed small tolerance']
IMPORTS = 'From Coq Require Import List PrimFloat Bool.\nImport ListNotations.\nFrom TL Require Import Model.Num Model.Geom.'
FEQ = 'Definition feq (a b : float) : bool := PrimFloat.eqb a b || (negb (PrimFloat.eqb a a) && negb (PrimFloat.eqb b b)).\n'


def nearest_exact(seg, x, y):
    """(distance, parameter) of the nearest point of the closed segment, exact on the rational values of the floats"""
    x1, y1, x2, y2 = map(F, seg)
    x, y = F(x), F(y)
    L2 = (x2 - x1) ** 2 + (y2 - y1) ** 2
    if L2 == 0:
        return math.sqrt((x - x1) ** 2 + (y - y1) ** 2), F(0)
    lam = ((x - x1) * (x2 - x1) + (y - y1) * (y2 - y1)) / L2
    lam = max(F(0), min(F(1), lam))
    px, py = x1 + lam * (x2 - x1), y1 + lam * (y2 - y1)
    return math.sqrt((x - px) ** 2 + (y - py) ** 2), lam


def check_proj(seg, x, y, d, px, py, what):
    if any(v != v or abs(v) == math.inf for v in (d, px, py)):
        return '%s returned a non-finite value (%r, %r, %r)' % (what, d, px, py)
    dmin, _ = nearest_exact(seg, x, y)
    scale = 1 + max(abs(v) for v in list(seg) + [x, y])
    tol = 1e-8 * scale
    if abs(d - math.hypot(x - px, y - py)) > tol:
        return '%s: returned distance %r is not the distance %r from the query to the returned point (%r, %r)' % (what, d, math.hypot(x - px, y - py), px, py)
    if abs(d - dmin) > tol:
        return '%s: returned distance %r but the minimum distance to the segment %r is %r (query %r, %r)' % (what, d, list(seg), dmin, x, y)
    # on the segment: distance from the returned point to the segment is ~0
    don, _ = nearest_exact(seg, px, py)
    if don > tol:
        return '%s: returned point (%r, %r) is %r away from the segment %r' % (what, px, py, don, list(seg))
    return None


def rnd_coord(rng, sc):
    return rng.randint(-500, 500) * sc


# ------------------------------------------------------------------ proj_segment, non-vertical

def gen_segment(rng, n, tier):
    out = []
    for _ in range(n):
        sc = rng.choice([1, 0.1, 0.01, 0.3, 1, 0.25])
        x1 = rnd_coord(rng, sc); y1 = rnd_coord(rng, sc)
        x2 = x1 + rng.randint(1, 300) * sc * rng.choice([1, -1])
        y2 = y1 + rng.choice([0, 0, rng.randint(-300, 300) * sc])
        r = rng.random()
        if r < 0.2:          # query on the segment
            t = rng.random(); qx = x1 + t * (x2 - x1); qy = y1 + t * (y2 - y1)
        elif r < 0.3:        # at a vertex
            qx, qy = rng.choice([(x1, y1), (x2, y2)])
        elif r < 0.4:        # beyond an end, on the supporting line
            t = rng.choice([-0.5, 1.5]); qx = x1 + t * (x2 - x1); qy = y1 + t * (y2 - y1)
        else:
            qx = rng.uniform(min(x1, x2) - 50 * sc, max(x1, x2) + 50 * sc); qy = rng.uniform(min(y1, y2) - 50 * sc, max(y1, y2) + 50 * sc)
        if rng.random() < 0.25:                 # projected-coordinate magnitudes (Lambert-93 like eastings / northings with two decimals)
            ox = rng.choice([651000.5, 123456.78, 1000000.25]) + rng.randint(0, 99999) / 100.0
            oy = rng.choice([6860000.1, 6543210.9, 250000.35]) + rng.randint(0, 99999) / 100.0
            x1, x2, qx = x1 + ox, x2 + ox, qx + ox
            y1, y2, qy = y1 + oy, y2 + oy, qy + oy
        out.append({'seg': [x1, y1, x2, y2], 'q': [qx, qy]})
    return out


def run_segment(case):
    from tracklib.util.geometry import proj_segment
    d, px, py = proj_segment(list(case['seg']), case['q'][0], case['q'][1])
    return {'d': float(d), 'px': float(px), 'py': float(py)}


def seglit(s):
    return '{| sx1 := %s; sy1 := %s; sx2 := %s; sy2 := %s |}' % tuple(fl(v) for v in s)


def coq_segment(case, obs):
    if 'exc' in obs:
        return None
    return '(%s, %s, %s, (%s, %s, %s))' % (seglit(case['seg']), fl(case['q'][0]), fl(case['q'][1]), fl(obs['d']), fl(obs['px']), fl(obs['py']))


def oracle_segment(case, obs):
    if 'exc' in obs:
        return 'proj_segment(%r, %r, %r) raised %s' % (case['seg'], case['q'][0], case['q'][1], obs['exc'])
    return check_proj(case['seg'], case['q'][0], case['q'][1], obs['d'], obs['px'], obs['py'], 'proj_segment(%r, %r, %r)' % (case['seg'], case['q'][0], case['q'][1]))


def finding_segment(case, obs, why):
    s = case['seg']
    return 'vertical-segment' if s[0] == s[2] else None


SEG_TYPE = 'seg (T:=float) * float * float * (float * float * float)'
SEG_OK = FEQ + "Definition ok (c : %s) : bool := let '(s,x,y,(d,px,py)) := c in let '(d',px',py') := proj_segment FNum s x y in feq d d' && feq px px' && feq py py'." % SEG_TYPE

S_SEGMENT = Stream(
    name='segment', budget={'quick': 2500, 'thorough': 60000},
    rule=('non-vertical segments (40% horizontal) with integer, decimal (0.1, 0.01, 0.3: non-dyadic) and quarter-integer coordinates; queries beside the segment, on it, at its vertices, '
          'beyond its ends on the supporting line; observed: the three return values of proj_segment, compared bit for bit with the float instance of the model; non-trivial = always'),
    imports=IMPORTS, case_type=SEG_TYPE, check_def=SEG_OK,
    generate=gen_segment, run_impl=run_segment, coq_case=coq_segment, oracle=oracle_segment, finding_key=finding_segment,
    klass=lambda c, o: 'horizontal' if c['seg'][1] == c['seg'][3] else 'oblique')


# ------------------------------------------------------------------ proj_segment, vertical (known finding)

def gen_vertical(rng, n, tier):
    out = [{'seg': [10, 0, 10, 5], 'q': [5, 2]}, {'seg': [0, 0, 0, 5], 'q': [0, 3]}]
    for _ in range(n):
        sc = rng.choice([1, 0.1, 0.25])
        x1 = rnd_coord(rng, sc); y1 = rnd_coord(rng, sc)
        y2 = y1 + rng.randint(1, 300) * sc * rng.choice([1, -1])
        qx = x1 if rng.random() < 0.2 else rng.uniform(x1 - 50 * sc, x1 + 50 * sc)
        qy = rng.uniform(min(y1, y2) - 50 * sc, max(y1, y2) + 50 * sc)
        out.append({'seg': [x1, y1, x1, y2], 'q': [qx, qy]})
    return out


S_VERTICAL = Stream(
    name='vertical', budget={'quick': 300, 'thorough': 5000},
    rule=('vertical segments (x1 == x2), queries beside and on the supporting line, starting with the two recorded witnesses; the model (float instance) must still agree with the '
          'implementation where it returns a value; oracle failures here are the open known finding "vertical-segment"'),
    imports=IMPORTS, case_type=SEG_TYPE, check_def=SEG_OK,
    generate=gen_vertical, run_impl=run_segment, coq_case=coq_segment, oracle=oracle_segment, finding_key=finding_segment,
    klass=lambda c, o: 'on-line' if c['q'][0] == c['seg'][0] else 'beside')


# ------------------------------------------------------------------ proj_polyligne / mapOnTrack

def gen_poly(rng, n, tier):
    out = []
    for _ in range(n):
        sc = rng.choice([1, 0.1, 0.25, 1])
        k = rng.randint(2, 8)
        pts = [[rnd_coord(rng, sc) / 10, rnd_coord(rng, sc) / 10]]
        for _ in range(k - 1):
            r = rng.random()
            x, y = pts[-1]
            if r < 0.12:
                pts.append([x, y])                                   # zero-length segment (skipped)
            elif r < 0.3:
                pts.append([x + rng.randint(1, 40) * sc * rng.choice([1, -1]), y])      # horizontal
            else:
                pts.append([x + rng.randint(1, 40) * sc * rng.choice([1, -1]), y + rng.randint(-40, 40) * sc])
        r = rng.random()
        if r < 0.2:
            i = rng.randrange(k - 1); t = rng.random()
            q = [pts[i][0] + t * (pts[i + 1][0] - pts[i][0]), pts[i][1] + t * (pts[i + 1][1] - pts[i][1])]
        elif r < 0.3:
            q = list(rng.choice(pts))
        else:
            xs = [p[0] for p in pts]; ys = [p[1] for p in pts]
            q = [rng.uniform(min(xs) - 30 * sc, max(xs) + 30 * sc), rng.uniform(min(ys) - 30 * sc, max(ys) + 30 * sc)]
        out.append({'pts': pts, 'q': q, 'edited': rng.random() < 0.3, 'qtrack': rng.choice([None, None, 'fresh', 'mapped']), 'qprev': rng.choice([None, 'near', 'creep', 'same', 'far']),
                    'qz': rng.choice([0.0, 0.0, 135.0, -12.5]), 'tz': rng.choice([0.0, 0.0, 135.0, 40.0])})
    for _ in range(max(8, n // 100)):
        # long polylines digitised finely one way and coarsely the other (an out-and-back road): the nearest segment is far, in index, from the nearest vertex
        m = rng.choice([150, 301, 420]); h = rng.choice([6.0, 10.0, 15.5])
        L = (m - 1) * 0.5
        pts = [[i * 0.5, 0.0] for i in range(m)] + [[L + 1.5, h], [L / 2 + 1.25, h + 0.5], [0.0, h]]
        if rng.random() < 0.5:
            pts = pts[::-1]
        q = [rng.uniform(0.1 * L, 0.9 * L), rng.choice([0.55, 0.6, 0.75, 0.9]) * h]
        out.append({'pts': pts, 'q': q, 'edited': False, 'qtrack': rng.choice([None, 'fresh'])})
    for _ in range(max(20, n // 40)):
        # an exactly north-south leg, walked up or down, first or in the middle, and a query whose nearest point on it is one of its ENDS (beyond the leg, off its line):
        # there the end-point answer is the right one, whatever the open finding on vertical legs says about interior feet
        x0 = float(rng.randint(-20, 20)); y0 = float(rng.randint(-20, 20)); L = float(rng.randint(3, 15))
        leg = [[x0, y0 + L], [x0, y0]] if rng.random() < 0.6 else [[x0, y0], [x0, y0 + L]]
        tail = [[x0 + rng.randint(4, 15), leg[-1][1] + rng.randint(-3, 3)]]
        head = [[x0 - rng.randint(4, 15), leg[0][1] + rng.randint(-3, 3)]] if rng.random() < 0.4 else []
        pts = head + leg + tail
        top = max(leg[0][1], leg[1][1]); bot = min(leg[0][1], leg[1][1])
        q = [x0 + rng.choice([3.0, -2.5, 1.25, -4.0]), rng.choice([top + rng.uniform(0.5, 6), bot - rng.uniform(0.5, 6)])]
        out.append({'pts': pts, 'q': q, 'edited': False, 'qtrack': rng.choice([None, 'fresh'])})
    for _ in range(max(20, n // 40)):
        # a leg that is almost, but not exactly, north-south (an easting drift of a micrometre over metres), and a query beside it or on it
        x0 = float(rng.randint(-50, 50)); y0 = float(rng.randint(-50, 50))
        # (slopes between 2e-7 and 1e-6: steeper still, the foot computed through -c / b loses micrometres by cancellation - the neighbourhood of the open finding on vertical segments)
        drift, L = rng.choice([(1e-5, 10.0), (5e-6, 5.0), (1e-5, 40.0), (1e-6, 5.0), (2e-6, 10.0)]); drift *= rng.choice([1, -1])
        pts = [[x0 - rng.randint(3, 20), y0 - rng.randint(-5, 5)], [x0, y0], [x0 + drift, y0 + L], [x0 + drift + rng.randint(3, 20), y0 + L + rng.randint(-5, 5)]]
        if rng.random() < 0.3:
            pts = pts[::-1]
        q = [x0 + rng.choice([rng.uniform(-8, 8), 0.0, 3.0]), y0 + rng.uniform(0.05, 0.95) * L]
        out.append({'pts': pts, 'q': q, 'edited': False, 'qtrack': rng.choice([None, 'fresh'])})
    for _ in range(max(20, n // 40)):
        # projected coordinates (eastings / northings: a large common offset) and a query a few millimetres past a vertex, on the next segment: it is millimetres from
        # the earlier segment and on the later one.  Distances are differences of nearby large numbers; the tolerance is that of the extent, not of the offset
        X0, Y0 = rng.choice([(651000.0, 6861000.0), (448250.0, 5411950.0)])
        k = rng.randint(3, 6)
        pts = [[X0 + rng.randint(-40, 40), Y0 + rng.randint(-40, 40)]]
        for _ in range(k - 1):
            pts.append([pts[-1][0] + rng.choice([1, -1]) * rng.randint(5, 40), pts[-1][1] + rng.randint(-40, 40)])
        j = rng.randrange(1, k - 1)
        (ax, ay), (bx, by) = pts[j], pts[j + 1]
        L = math.hypot(bx - ax, by - ay); d = rng.choice([0.002, 0.004, 0.006, 0.5, 0.0])
        q = [ax + d * (bx - ax) / L, ay + d * (by - ay) / L]
        out.append({'pts': pts, 'q': q, 'edited': False, 'qtrack': rng.choice([None, 'fresh']), 'offset': True})
    return out


def run_poly(case):
    import sys
    from tracklib.util.geometry import proj_polyligne
    from tracklib.core import ObsTime, ENUCoords, Obs, Track
    import tracklib.algo.mapping
    mp = sys.modules['tracklib.algo.mapping']
    X = [p[0] for p in case['pts']]; Y = [p[1] for p in case['pts']]
    try:
        d, px, py, i = proj_polyligne(X, Y, case['q'][0], case['q'][1])
    except UnboundLocalError:
        return {'none': True}
    if case.get('edited'):
        # the same track object is first used with another geometry, then edited in place (same number of fixes) into the geometry of the case
        tr = Track([Obs(ENUCoords(x + 3.0, 2.0 * y - 1.0, 0), ObsTime.readUnixTime(k)) for k, (x, y) in enumerate(case['pts'])])
        mp.mapOnTrack(ENUCoords(case['q'][0], case['q'][1], 0), tr)
        for k, (x, y) in enumerate(case['pts']):
            tr.getObs(k).position.setX(x); tr.getObs(k).position.setY(y)
    else:
        tr = Track([Obs(ENUCoords(x, y, case.get('tz', 0.0)), ObsTime.readUnixTime(k)) for k, (x, y) in enumerate(case['pts'])])
    c, d2, i2 = mp.mapOnTrack(ENUCoords(case['q'][0], case['q'][1], case.get('qz', 0.0)), tr)       # altitudes play no part: the projection is planimetric
    res = {'d': float(d), 'px': float(px), 'py': float(py), 'i': int(i), 'map': [float(c.getX()), float(c.getY()), float(d2), int(i2)]}
    if case.get('qtrack'):
        # the track form of mapOnTrack: the query is a one-fix track, fresh or itself the result of an earlier mapOnTrack on another polyline
        # (it then already carries the features the result is reported in)
        qt = Track([Obs(ENUCoords(case['q'][0], case['q'][1], case.get('qz', 0.0)), ObsTime.readUnixTime(5))])
        if case['qtrack'] == 'mapped':
            other = Track([Obs(ENUCoords(case['q'][0] - 3.0, case['q'][1] - 40.0, 0)), Obs(ENUCoords(case['q'][0] + 5.0, case['q'][1] - 40.0, 0)), Obs(ENUCoords(case['q'][0] + 50.0, case['q'][1] - 45.0, 0))])
            qt2 = mp.mapOnTrack(qt, other)
            qt2.getObs(0).position.setX(case['q'][0]); qt2.getObs(0).position.setY(case['q'][1])
            qt = qt2
        if case.get('qprev'):
            # the query track has earlier fixes: a slowly creeping receiver (fixes some hundredths of a millimetre apart), a repeated fix, a distant one; each fix is projected for itself
            qx, qy = case['q']
            pre = {'near': [[qx + 40.0, qy - 7.0], [qx + 6e-5, qy - 3e-5]], 'creep': [[qx - 1.8e-4 + 6e-5 * i, qy + 2.4e-4 - 8e-5 * i] for i in range(3)], 'same': [[qx, qy]], 'far': [[qx - 13.0, qy + 2.5]]}[case['qprev']]
            last = qt.getObs(0)
            qt = Track([Obs(ENUCoords(x, y, 0.0), ObsTime.readUnixTime(k)) for k, (x, y) in enumerate(pre)] + [last])
        out = mp.mapOnTrack(qt, tr)
        L = out.size() - 1
        res['tmap'] = [float(out.getObs(L).position.getX()), float(out.getObs(L).position.getY()), float(out['dist', L]), int(out['edge', L])]
    return res


def coq_poly(case, obs):
    if 'exc' in obs:
        return None
    pts = coq_list('(%s, %s)' % (fl(x), fl(y)) for x, y in case['pts'])
    if obs.get('none'):
        exp = 'None'
    else:
        exp = 'Some (%s, %s, %s, %d%%nat)' % (fl(obs['d']), fl(obs['px']), fl(obs['py']), obs['i'])
    return '(%s, %s, %s, %s)' % (pts, fl(case['q'][0]), fl(case['q'][1]), exp)


def oracle_poly(case, obs):
    if 'exc' in obs:
        return 'proj_polyligne raised %s on %r, query %r' % (obs['exc'], case['pts'], case['q'])
    pts = case['pts']
    segs = [(i, pts[i] + pts[i + 1]) for i in range(len(pts) - 1) if abs(pts[i][0] - pts[i + 1][0]) + abs(pts[i][1] - pts[i + 1][1]) >= 1e-16]
    if obs.get('none'):
        return None if not segs else 'no result although the polyline has a segment of positive length'
    if not segs:
        return 'a result was returned for a polyline whose segments all have zero length'
    x, y = case['q']
    i = obs['i']
    if i not in [k for k, _ in segs]:
        return 'returned segment index %r is not a segment of positive length' % i
    r = check_proj(pts[i] + pts[i + 1], x, y, obs['d'], obs['px'], obs['py'], 'proj_polyligne (segment %d)' % i)
    if r:
        # the returned distance must still be the minimum over the whole polyline
        return r
    dmin = min(nearest_exact(s, x, y)[0] for _, s in segs)
    scale = 1 + max(abs(v) for p in pts for v in p)
    if case.get('offset'):                       # translated data: the scale of the rounding is the extent of the figure (plus what the large coordinates themselves cannot resolve)
        scale = 1 + max(max(abs(p[0] - pts[0][0]), abs(p[1] - pts[0][1])) for p in pts + [[x, y]]) + 1e-5 * scale
    if abs(obs['d'] - dmin) > 1e-7 * scale:
        return 'proj_polyligne returned distance %r on segment %d but the minimum distance to the polyline is %r' % (obs['d'], i, dmin)
    if 'tmap' in obs and obs['tmap'] != obs['map']:
        return 'mapOnTrack(track) %r differs from mapOnTrack(coordinate) %r' % (obs['tmap'], obs['map'])
    if obs['map'] != [obs['px'], obs['py'], obs['d'], obs['i']]:
        return 'mapOnTrack %r differs from proj_polyligne %r' % (obs['map'], [obs['px'], obs['py'], obs['d'], obs['i']])
    return None


def finding_poly(case, obs, why):
    # the open finding concerns the projection on a vertical segment: it explains a failure only when the segment returned, or a segment
    # that is (one of) the nearest, is vertical - not any failure on a polyline that happens to contain a vertical segment somewhere
    pts = case['pts']
    isv = lambda i: pts[i][0] == pts[i + 1][0] and pts[i][1] != pts[i + 1][1]
    if not any(isv(i) for i in range(len(pts) - 1)):
        return None
    if 'exc' in obs:
        return 'vertical-segment'
    x, y = case['q']
    cand = set()
    if isinstance(obs.get('i'), int) and 0 <= obs['i'] < len(pts) - 1:
        cand.add(obs['i'])
    ds = [(nearest_exact(pts[i] + pts[i + 1], x, y)[0], i) for i in range(len(pts) - 1) if pts[i] != pts[i + 1]]
    if ds:
        dmin = min(d for d, _ in ds)
        cand |= {i for d, i in ds if d <= dmin + 1e-9 * (1 + dmin)}
    # ... and only when the query's foot on that vertical segment is interior, or the query lies on its supporting line: when the nearest point of a vertical segment is
    # one of its ends, the end-point answer of the unchanged code is the right one
    def concerned(i):
        y1, y2 = pts[i][1], pts[i + 1][1]
        return isv(i) and (x == pts[i][0] or min(y1, y2) < y < max(y1, y2))
    return 'vertical-segment' if any(concerned(i) for i in cand) else None


def shrink_poly(case):
    pts = case['pts']
    if len(pts) > 2:
        for i in range(len(pts)):
            yield dict(case, pts=pts[:i] + pts[i + 1:])


POLY_TYPE = 'list (float * float) * float * float * option (float * float * float * nat)'
S_POLY = Stream(
    name='polyline', budget={'quick': 1200, 'thorough': 30000},
    rule=('polylines of 2..8 vertices with oblique, horizontal and zero-length segments (no vertical ones), integer / decimal / quarter-integer coordinates; queries beside, on the polyline, '
          'at vertices; observed: the four return values of proj_polyligne (UnboundLocalError = no result) and mapOnTrack(coord, track), in 30 % of the cases on a track object that was projected on with another geometry and then edited in place; non-trivial = at least two segments of positive length'),
    imports=IMPORTS, case_type=POLY_TYPE,
    check_def=FEQ + '''Definition eps : float := (0x1.cd2b297d889bcp-54)%%float.   (* 1e-16 *)
Definition ok (c : %s) : bool :=
  let '(pts, x, y, e) := c in
  match proj_polyligne FNum eps pts x y, e with
  | None, None => true
  | Some (d, px, py, i), Some (d', px', py', i') => feq d d' && feq px px' && feq py py' && Nat.eqb i i'
  | _, _ => false
  end.''' % POLY_TYPE,
    generate=gen_poly, run_impl=run_poly, coq_case=coq_poly, oracle=oracle_poly, finding_key=finding_poly, shrink=shrink_poly,
    nontrivial=lambda c, o: sum(1 for i in range(len(c['pts']) - 1) if c['pts'][i] != c['pts'][i + 1]) >= 2,
    klass=lambda c, o: 'n=%d' % len(c['pts']))

# the distance to a single segment without the projected point (util.geometry.distance_to_segment): the stream is defined with C16, whose simplifiers call it
from props.C16 import S_DS
STREAMS = [S_SEGMENT, S_VERTICAL, S_POLY, S_DS]
