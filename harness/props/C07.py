"""C07 - a returned shortest path is a real, optimal, geometrically continuous route"""
import math
from core import Stream, q, coq_list, zlit
from props.C06 import use_subnet, rand_pre, edge_label, gen_graph, exhaustive_small, arcs_of, bellman_ford, coq_edges, IMPORTS as G_IMPORTS, COMMON as G_COMMON

PROP = 'C07'
THEOREM_FILE = 'Props/C07.v'
NOTES = ['in 30% of the cases routes returned by earlier queries are translated and scaled in place before the observed query (a returned route is the caller\'s object)',
         'the returned path is compared through the abstraction of the theorem (valid walk of the recorded edges, cost = shortest distance, geometry = chained travel-oriented polylines), '
         'so another optimal path is not a disagreement',
         'every edge polyline has three vertices: its source node position, a middle vertex unique to the edge (1000 + id, id), its target node position - the hypothesis '
         '"an edge\'s polyline starts at its source node and ends at its target node" of the geometry theorem holds for every generated network',
         'Dijkstra mode only; integer / dyadic weights']


def pos(i):
    i = i % 20                      # nodes i and i + 20 are distinct nodes standing at the same place (a loop road leaving and re-entering a junction)
    return [float(i), float(i * i % 7)]


def mid(eid):
    return [1000.0 + eid, float(eid)]


def mid2(eid):
    return [2000.0 + eid, float(2 * eid + 1)]       # a second interior vertex: no edge polyline reads the same in both directions


def build_net(edges, ids='int', nanz=()):
    from tracklib.core import ENUCoords, Obs, Track, Network, Node, Edge
    net = Network()
    Z = lambda v: float('nan') if v in nanz else 0          # junctions whose altitude is unknown (a 2-D survey): positions play no part in the default routing
    for (eid, s, t, o, w) in edges:
        pts = [pos(s), mid(eid), mid2(eid), pos(t)]
        e = Edge(edge_label(eid, ids), Track([Obs(ENUCoords(x, y, 0)) for x, y in pts]))
        e.orientation = o
        e.weight = w
        net.addEdge(e, Node(s, ENUCoords(pos(s)[0], pos(s)[1], Z(s))), Node(t, ENUCoords(pos(t)[0], pos(t)[1], Z(t))))
    return net


def generate(rng, n, tier):
    cases = []
    if tier == 'thorough':
        for g in exhaustive_small():
            nodes = sorted({e[1] for e in g} | {e[2] for e in g})
            for s in nodes:
                for t in nodes:
                    if s != t:
                        cases.append({'edges': g, 'src': s, 'tgt': t, 'shared': rng.random() < 0.3, 'edit': rng.random() < 0.2, 'warm': rng.choice(nodes)})
    for k in range(n):
        g = gen_graph(rng, small=(k % 3 == 0))
        tw = None
        if rng.random() < 0.25:      # twin nodes: some edge ends are re-attached to a second node at the same position, and edges join a node to its twin
            tw = rng.choice(sorted({e[1] for e in g} | {e[2] for e in g}))
            for e in g:
                if e[1] == tw and rng.random() < 0.5:
                    e[1] = tw + 20
                if e[2] == tw and rng.random() < 0.5:
                    e[2] = tw + 20
            g.append([len(g), tw, tw + 20, rng.choice([0, 1, -1]), rng.choice([0, 1, 2])])
            if rng.random() < 0.5:
                g.append([len(g), tw + 20, tw, rng.choice([0, 1, -1]), rng.choice([1, 3])])
        nodes = sorted({e[1] for e in g} | {e[2] for e in g})
        if len(nodes) < 2:
            continue
        s = rng.choice(nodes)
        t = rng.choice([v for v in nodes if v != s])
        if tw is not None and rng.random() < 0.6:     # a route that has to go from a node to its twin, or through both
            s, t = rng.choice([(tw, tw + 20), (tw + 20, tw), (s, tw + 20) if s != tw + 20 else (tw, tw + 20)])
        cases.append({'edges': g, 'src': s, 'tgt': t, 'shared': rng.random() < 0.3, 'edit': rng.random() < 0.3, 'warm': rng.choice(nodes), 'pre': rand_pre(rng), 'ids': rng.choice(['int', 'int', 'str', 'blank']),
                      'desig': rng.choice(['id', 'id', 'id', 'getnode', 'fresh', 'other']), 'astar': rng.random() < 0.25, 'multi': rng.random() < 0.2})
        if rng.random() < 0.2:
            cases[-1]['nanz'] = rng.sample(nodes, rng.randint(1, min(3, len(nodes)))); cases[-1]['astar'] = False
    return cases


def run_impl(case):
    net = build_net(case['edges'], case.get('ids', 'int'), case.get('nanz') or ())
    use_subnet(net, case)
    if case.get('edit'):            # a route returned earlier is the caller's: editing it in place must not move the network under later queries
        for a, b in ((case['warm'], case['tgt']), (case['src'], case['tgt']), (case['tgt'], case['src'])):
            r0 = net.shortest_path(a, b)
            if r0 is not None and len(r0) > 0:
                r0.translate(100.0, 100.0)
                r0.scale(2.0)
    if case.get('astar'):
        # an earlier, unrelated query on the same network made in the other routing mode (A*), then back to the default: the default-mode answers are those of a fresh network
        from tracklib.core import Network
        net.setRoutingMethod(Network.ROUTING_ALGO_ASTAR)
        w = case['warm'] if case['warm'] in net.NODES else case['src']
        net.shortest_path(case['src'], w); net.shortest_path(case['tgt'], case['src']); net.shortest_distance(w, case['tgt'])
        net.setRoutingMethod(Network.ROUTING_ALGO_DIJKSTRA)
    S, T = case['src'], case['tgt']
    if case.get('desig') in ('getnode', 'fresh', 'other'):
        # the ends designated by Node objects, which the API accepts as well as identifiers: the network's own objects, fresh Node(id, coord) objects,
        # or the objects of another network over the same identifiers on which a different route was computed last
        from tracklib.core import Node, ENUCoords
        if case['desig'] == 'getnode':
            S, T = net.getNode(S), net.getNode(T)
        elif case['desig'] == 'fresh':
            S, T = Node(S, ENUCoords(pos(S)[0], pos(S)[1], 0)), Node(T, ENUCoords(pos(T)[0], pos(T)[1], 0))
        else:
            other = build_net(case['edges'], case.get('ids', 'int'))
            other.shortest_path(case['tgt'], case['warm']); other.shortest_path(case['warm'], case['src'])
            S, T = other.getNode(S), other.getNode(T)
    case = dict(case, src=S, tgt=T)
    if case.get('shared'):          # the optional output dictionary, reused across successive calls from the same source as the API allows
        reg = {}
        net.shortest_path(case['src'], case['warm'], output_dict=reg)
        tr = net.shortest_path(case['src'], case['tgt'], output_dict=reg)
        d = net.shortest_distance(case['src'], case['tgt'], output_dict=reg)
    elif case.get('multi'):
        # the documented one-to-many use: one forward pass from the source, then a route read back for several targets in turn (the warm-up node, the target itself, the target again)
        net.run_routing_forward(case['src'])
        w = case['warm'] if (not isinstance(case['warm'], int) or case['warm'] in net.NODES) else case['src']
        net.run_routing_backward(w); net.run_routing_backward(case['tgt'])
        tr = net.run_routing_backward(case['tgt'])
        d = net.shortest_distance(case['src'], case['tgt'])
    else:
        tr = net.shortest_path(case['src'], case['tgt'])
        d = net.shortest_distance(case['src'], case['tgt'])
    if tr is None:
        return {'path': None, 'dist': d}
    return {'path': [int(v) for v in tr.path], 'geom': [[o.position.getX(), o.position.getY()] for o in tr], 'dist': d}


def recover_edges(case, obs):
    """edge ids in travel order from the middle vertices found in the returned geometry"""
    ids = []
    for x, y in obs['geom']:
        if 1000 <= x < 2000:
            ids.append(int(round(x - 1000)))
    return ids


def coq_case(case, obs):
    if 'exc' in obs:
        return None
    if obs['path'] is None:
        impl = 'None'
    else:
        impl = 'Some (%s%%nat, %s%%nat, %s)' % (coq_list(map(str, obs['path'])), coq_list(map(str, recover_edges(case, obs))),
                                            coq_list('(%s, %s)' % (q(x), q(y)) for x, y in obs['geom']))
    d = 'None' if obs['dist'] < 0 else 'Some ' + q(obs['dist'])
    return '(%s, %d%%nat, %d%%nat, %s, %s)' % (coq_edges(case['edges']), case['src'], case['tgt'], impl, d)


def oracle(case, obs):
    if 'exc' in obs:
        return 'shortest_path raised %s' % obs['exc']
    dist = bellman_ford(case['edges'], case['src'])[case['tgt']]
    if obs['path'] is None:
        return None if dist == math.inf else 'no path returned although node %d is reachable from %d (distance %r)' % (case['tgt'], case['src'], dist)
    if dist == math.inf:
        return 'a path %r was returned although the target is unreachable' % obs['path']
    path = obs['path']
    if path[0] != case['src'] or path[-1] != case['tgt']:
        return 'path %r does not run from the source %d to the target %d' % (path, case['src'], case['tgt'])
    ids = recover_edges(case, obs)
    if len(ids) != len(path) - 1:
        return 'path %r has %d steps but the geometry chains %d edges (%r)' % (path, len(path) - 1, len(ids), ids)
    byid = {e[0]: e for e in case['edges']}
    total = 0
    exp_geom = [pos(path[0])]
    for (a, b), k in zip(zip(path, path[1:]), ids):
        _, s, t, o, w = byid[k]
        ok = (o >= 0 and s == a and t == b) or (o <= 0 and t == a and s == b)
        if not ok:
            return 'step %d -> %d of the path uses edge %d = (%d -> %d, orientation %d), not traversable in that direction' % (a, b, k, s, t, o)
        total += w
        fwd = o >= 0 and s == a and t == b; bwd = o <= 0 and t == a and s == b
        inner = [mid(k), mid2(k)] if fwd else [mid2(k), mid(k)]
        if fwd and bwd and obs['geom'][len(exp_geom):len(exp_geom) + 2] == [mid2(k), mid(k)]:
            inner = [mid2(k), mid(k)]                # a two-way self-loop may be drawn either way round
        exp_geom += inner + [pos(b)]
    if total != dist or obs['dist'] != dist:
        return 'the edges of the path %r weigh %r, shortest_distance reports %r, true minimum %r' % (path, total, obs['dist'], dist)
    if obs['geom'] != exp_geom:
        return 'geometry %r is not the chain of the edge polylines in travel order without repeated junctions %r' % (obs['geom'], exp_geom)
    return None


def shrink(case):
    es = case['edges']
    for i in range(len(es)):
        rest = [list(e) for e in es[:i] + es[i + 1:]]
        used = {e[1] for e in rest} | {e[2] for e in rest}
        if rest and case['src'] in used and case['tgt'] in used:
            c = dict(case)
            c['edges'] = rest
            yield c


CHECK = G_COMMON + '''Definition pt := (Q * Q)%type.
Definition posf (i0 : nat) : pt := let i := (i0 mod 20)%nat in (inject_Z (Z.of_nat i), inject_Z (Z.of_nat ((i * i) mod 7))).
Definition geomf (e : edge) : list pt := [posf (esrc e); (inject_Z (1000 + Z.of_nat (eid e)), inject_Z (Z.of_nat (eid e))); (inject_Z (2000 + Z.of_nat (eid e)), inject_Z (Z.of_nat (2 * eid e + 1))); posf (etgt e)].
Definition pteq (a b : pt) : bool := Qeq_bool (fst a) (fst b) && Qeq_bool (snd a) (snd b).
Fixpoint lpteq (a b : list pt) : bool := match a, b with [], [] => true | x :: r, y :: s => pteq x y && lpteq r s | _, _ => false end.
Fixpoint edges_of (g : graph) (ids : list nat) : option (list edge) :=
  match ids with [] => Some [] | k :: r => match find (fun e => Nat.eqb (eid e) k) g, edges_of g r with Some e, Some es => Some (e :: es) | _, _ => None end end.
Fixpoint walkb (g : graph) (u t : nat) (es : list edge) : bool :=
  match es with [] => Nat.eqb u t | e :: r => existsb (fun e' => Nat.eqb (eid e') (eid e)) (next_edges g u) && walkb g (fils e u) t r end.
Definition ok (c : graph * nat * nat * option (list nat * list nat * list pt) * option Q) : bool :=
  let '(g, src, t, impl, d) := c in
  let s := run (fuel g) g (Some t) big (init src) in
  qeqb (poids s t) d &&
  match impl, path_nodes s t with
  | None, None => true
  | Some (nodes, ids, geo), Some (mnodes, mids) =>
      match edges_of g ids with
      | Some es => negb (Nat.eqb (length es) 0) && walkb g src t es && (if list_eq_dec Nat.eq_dec nodes (nodes_from src es) then true else false)
                   && qeqb (Some (cost es)) (poids s t) && lpteq geo (join pt (travel pt geomf src es))
                   && (* the model's own path passes the same checks *)
                   match edges_of g mids with Some mes => walkb g src t mes && qeqb (Some (cost mes)) (poids s t) | None => false end
      | None => false
      end
  | _, _ => false
  end.'''

STREAMS = [Stream(
    name='path', budget={'quick': 400, 'thorough': 5000},
    rule=('random directed multigraphs as in C06 (2..12 nodes, 1..40 edges, zero weights, three orientations, self-loops, parallel edges; thorough adds every multigraph with <= 3 nodes '
          'and <= 2 edges), edge polylines of three vertices with an edge-specific middle vertex, one ordered pair source != target; observed: shortest_path(s, t).path, the coordinates '
          'of the returned Track, shortest_distance(s, t); non-trivial = a path of at least 2 edges is returned'),
    imports=G_IMPORTS.replace('From TL Require Import Model.Graph.', 'From TL Require Import Model.Graph Proofs.Graph_inv Proofs.Graph_ante Proofs.Graph_path Proofs.PathGeom Proofs.Graph_geom.'),
    case_type='graph * nat * nat * option (list nat * list nat * list (Q * Q)) * option Q', check_def=CHECK,
    generate=generate, run_impl=run_impl, coq_case=coq_case, oracle=oracle, shrink=shrink,
    nontrivial=lambda c, o: bool(o.get('path')) and len(o['path']) >= 3,
    klass=lambda c, o: 'none' if o.get('path') is None else 'len=%d' % (len(o['path']) - 1))]
