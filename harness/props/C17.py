"""C17 - curvilinear abscissa and speed"""
import math
from core import Stream, q, optq, coq_list, isnan

PROP = 'C17'
THEOREM_FILE = 'Props/C17.v'
NOTES = ['"exactly" is read in exact arithmetic: the model receives the implementation\'s own pairwise planimetric distances (sqrt trusted) and the running sums are compared to 1e-9',
         'tracks of at least 2 fixes (speed is undefined on a single fix)']
IMPORTS = 'From Coq Require Import List Arith QArith Qabs Bool.\nImport ListNotations.\nFrom TL Require Import Model.Kinematics.\nOpen Scope Q_scope.'
CHECK = '''Definition close (a b : Q) : bool := Qle_bool (Qabs (a - b)) ((1 # 1000000000) * (1 + Qabs b)).
Definition dtab (m : list (list Q)) (a b : nat) : Q := nth b (nth a m []) 0.
Fixpoint cmpl (a b : list Q) : bool := match a, b with [], [] => true | x :: r, y :: s => close x y && cmpl r s | _, _ => false end.
Definition cmpo (a b : option Q) : bool := match a, b with Some x, Some y => close x y | None, None => true | _, _ => false end.
Definition ok (c : nat * list (list Q) * list Q * list Q * list (option Q)) : bool :=
  let '(n, m, ts, ac, spd) := c in
  cmpl (abs_curv nat (dtab m) (seq 0 n)) ac &&
  forallb (fun i => cmpo (speed_at nat (dtab m) (seq 0 n) ts 0%nat i) (nth i spd None)) (seq 0 n).'''


def generate(rng, n, tier):
    out = []
    for _ in range(n):
        k = rng.randint(2, 12)
        style = rng.random()
        if style < 0.4:        # axis-parallel / Pythagorean legs: exact distances
            pts = [[0.0, 0.0]]
            for _ in range(k - 1):
                dx, dy = rng.choice([(0, 0), (3, 4), (-3, 4), (5, 12), (1, 0), (0, 2), (-8, 6), (0, 0), (0.5, 0)])
                pts.append([pts[-1][0] + dx, pts[-1][1] + dy])
        else:
            pts = [[rng.randint(-50, 50) / 4.0, rng.randint(-50, 50) / 4.0] for _ in range(k)]
            if rng.random() < 0.4:
                i = rng.randrange(1, k)
                pts[i] = list(pts[i - 1])      # repeated position
        if rng.random() < 0.2:     # very short legs (a near-stationary receiver): the same shapes scaled to tens of micrometres, exact in binary
            sc = rng.choice([2.0 ** -15, 2.0 ** -17, 2.0 ** -20])
            pts = [[x * sc, y * sc] for x, y in pts]
        zs = [float(rng.randint(0, 30)) for _ in range(k)]   # heights must not matter (planimetric)
        ts = sorted(rng.choice(range(100, 100 + 2 * k)) for _ in range(k))   # repeated timestamps allowed
        ms = [rng.choice([0, 0, 500]) for _ in range(k)]
        if rng.random() < 0.08:
            # a benchmark re-surveyed every year (or every other year): neighbouring fixes in the same month, and often on the same day, of different years
            ts = [100]
            for _ in range(k - 1):
                ts.append(ts[-1] + rng.choice([365 * 86400, 366 * 86400, 730 * 86400, 365 * 86400 + 5, 364 * 86400, 0]))
            ms = [0] * k
        r2 = rng.random()
        if k >= 3 and r2 < 0.3:
            # boundary class: the two neighbours of an interior fix coincide (out-and-back) and / or share one instant
            i = rng.randrange(1, k - 1)
            if rng.random() < 0.7:
                pts[i + 1] = list(pts[i - 1])
            if rng.random() < 0.7:
                ts[i] = ts[i + 1] = ts[i - 1]
                ms[i] = ms[i + 1] = ms[i - 1]
                ts = sorted(ts)
        if r2 > 0.9:
            ts[1] = ts[0]; ms[1] = ms[0]                      # zero elapsed time at the first end
            if rng.random() < 0.5:
                pts[1] = list(pts[0])
        out.append({'pts': pts, 'z': zs, 't': ts, 'ms': ms, 'preds': rng.random() < 0.2, 'parent': rng.choice([None, None, None, [2, 1], [1, 0], [0, 2]]), 'how': rng.choice(['extract', 'slice']),
                    't0': rng.choice([0, 0, 0, 4107542400 - 110, 951782400 - 105, 4107542400 + 86400 * 100])})      # ordinary instants, or around the end of February 2100 / 2000
    for c in out:
        c['noised'] = rng.random() < 0.15
        if rng.random() < 0.2:
            c['viacopy'] = True
            if rng.random() < 0.6 and len(c['pts']) >= 3:      # a closed circuit: the last fix is at the place (and height) of the first
                c['pts'][-1] = list(c['pts'][0]); c['z'][-1] = c['z'][0]
        if rng.random() < 0.25:
            k = len(c['t'])
            ties = [i for i in range(1, k) if (c['t'][i], c['ms'][i]) == (c['t'][i - 1], c['ms'][i - 1])] + [i for i in range(2, k) if (c['t'][i], c['ms'][i]) == (c['t'][i - 2], c['ms'][i - 2])]
            idx = set(rng.sample(ties, min(len(ties), 2)) + [rng.randrange(k)])
            c['alt'] = {str(i): rng.choice(['sec', 'hour']) for i in idx}
    # a few long tracks (more than 256 fixes: beyond the small-integer cache of CPython, and long enough for an index arithmetic slip to show);
    # they go through the oracle only (the model tie carries the full distance matrix)
    for k in ([258, 300] if tier == 'quick' else [257, 258, 259, 300, 400, 512]):
        pts = [[rng.randint(-50, 50) / 4.0, rng.randint(-50, 50) / 4.0] for _ in range(k)]
        ts = sorted(rng.choice(range(100, 100 + 2 * k)) for _ in range(k))
        ts[-1] = ts[-2] + 3                                      # distinct last instants: the one-sided speed at the end is defined
        out.append({'pts': pts, 'z': [0.0] * k, 't': ts, 'ms': [0] * k})
    return out


def mktrack(case):
    from tracklib.core import ObsTime, ENUCoords, Obs, Track
    obs = []
    import datetime
    for (x, y), z, t, ms in zip(case['pts'], case['z'], case['t'], case['ms']):
        # timestamps are calendar dates (as read from a file): built from their fields; the elapsed times of the property are those of the calendar
        d = datetime.datetime(1970, 1, 1) + datetime.timedelta(seconds=t + case.get('t0', 0))
        ot = ObsTime(d.year, d.month, d.day, d.hour, d.minute, d.second, ms)
        alt = (case.get('alt') or {}).get(str(len(obs)))
        if alt == 'hour' and t + case.get('t0', 0) < 86400 + 120:
            alt = 'sec'                            # (the day before would be in 1969)
        if alt == 'sec':                           # the same instant in the notation of a leap second / an un-normalised log: 12:00:00 written 11:59:60 (the fields are never normalised; elapsed times are what counts)
            d2 = d - datetime.timedelta(seconds=60)
            ot = ObsTime(d2.year, d2.month, d2.day, d2.hour, d2.minute, d2.second + 60, ms)
        elif alt == 'hour':                        # ISO midnight: 00:00:00 of the 4th written 24:00:00 of the 3rd
            d2 = d - datetime.timedelta(days=1)
            ot = ObsTime(d2.year, d2.month, d2.day, d2.hour + 24, d2.minute, d2.second, ms)
        twin = next((o for o, (px, py), pz in zip(obs, case['pts'], case['z']) if (px, py, pz) == (x, y, z)), None) if case.get('viacopy') else None
        if twin is not None:                       # a fix at a place already visited, made as a copy of the earlier fix with its own instant (closing a circuit, a stop)
            o = twin.copy(); o.timestamp = ot
            obs.append(o)
        else:
            obs.append(Obs(ENUCoords(x, y, z), ot))
    return Track(obs)


def enc(l):
    return [None if isnan(float(v)) else float(v) for v in l]


def run_impl(case):
    import sys, tracklib.algo.cinematics, tracklib.algo.analytics
    ci = sys.modules['tracklib.algo.cinematics']
    an = sys.modules['tracklib.algo.analytics']
    tr = mktrack(case)
    if case.get('parent'):
        # the track is a sub-track (extract / slice) of a longer one, taken before anything was computed; the features are then computed on the
        # parent first: what is computed on the sub-track afterwards is about the sub-track
        a, b = case['parent']
        full = dict(case, pts=[[-50.0 - 3 * i, 7.0] for i in range(a)][::-1] + case['pts'] + [[case['pts'][-1][0] + 11.0 * (i + 1), case['pts'][-1][1] - 2.0] for i in range(b)],
                    z=[0.0] * a + case['z'] + [0.0] * b, t=[case['t'][0] - 10 * (a - i) for i in range(a)] + case['t'] + [case['t'][-1] + 10 * (i + 1) for i in range(b)],
                    ms=[0] * a + case['ms'] + [0] * b)
        P = mktrack(full)
        tr = P.extract(a, a + len(case['pts']) - 1) if case.get('how', 'extract') == 'extract' else P[a:a + len(case['pts'])]
        ci.computeAbsCurv(P); P.estimate_speed()
    if case.get('noised') and not case.get('parent'):
        # the track is a noised copy (Track.noise) of a reference track whose abscissa had been computed, then put on the positions of the case:
        # what is computed on it afterwards is about its own positions
        from tracklib.core import ENUCoords
        ref = mktrack(dict(case, pts=[[1.5 * x + 3.0, y - 2.0] for x, y in case['pts']]))
        ci.computeAbsCurv(ref)
        try:
            import numpy
            numpy.random.seed(7)
            nz = ref.noise(0.5)
        except Exception:
            nz = None                                # (a reference the noise model does not accept: the plain track is used)
        if nz is not None and nz.size() == tr.size():
            for i, (x, y) in enumerate(case['pts']):
                nz.getObs(i).position = ENUCoords(x, y, case['z'][i])
            tr = nz
    n = tr.size()
    pos0 = [(o.position.getX(), o.position.getY(), o.position.getZ(), str(o.timestamp), o.timestamp.ms) for o in tr]
    if case.get('preds'):                         # the leg lengths are already on the track under the name the computation uses, derived with the
        from tracklib.core.operators import Operator   # operator algebra (sqrt(D(x)^2 + D(y)^2): undefined at the first fix); an earlier abscissa was dropped
        tr.operate(Operator.DIFFERENTIATOR, 'x', 'dx'); tr.operate(Operator.DIFFERENTIATOR, 'y', 'dy')
        tr.operate(Operator.SQUARE, 'dx', 'dx2'); tr.operate(Operator.SQUARE, 'dy', 'dy2')
        tr.operate(Operator.ADDER, 'dx2', 'dy2', 'dx2'); tr.operate(Operator.SQRT, 'dx2', 'ds')
        for nm in ('dx', 'dy', 'dx2', 'dy2'):
            tr.removeAnalyticalFeature(nm)
    ret = ci.computeAbsCurv(tr)
    names1 = tr.getListAnalyticalFeatures()
    ac1 = enc(tr['abs_curv'])
    ret2 = ci.computeAbsCurv(tr)                     # repeated computation
    ac2 = enc(tr['abs_curv'])
    spd_fn = enc([an.speed(tr, i) for i in range(n)])
    spd = enc(tr.estimate_speed())
    names2 = tr.getListAnalyticalFeatures()
    pos1 = [(o.position.getX(), o.position.getY(), o.position.getZ(), str(o.timestamp), o.timestamp.ms) for o in tr]
    D = [[tr.getObs(a).position.distance2DTo(tr.getObs(b).position) for b in range(n)] for a in range(n)]
    T = [float(case['t'][i] + case.get('t0', 0)) + case['ms'][i] / 1000.0 for i in range(n)]          # the instants of the case (not the implementation's own conversion)
    return {'ret': enc(ret), 'ac': ac1, 'ac2': ac2, 'ret2': enc(ret2), 'names1': names1, 'names2': names2, 'speed': spd, 'speed_fn': spd_fn,
            'frame': pos0 == pos1, 'D': D, 'T': T}


def coq_case(case, obs):
    if 'exc' in obs:
        return None
    n = len(case['pts'])
    if n > 40 or any(v is None for v in obs['ac']):
        return None                               # an undefined abscissa is not a value of the model: left to the oracle
    return '(%d%%nat, %s, %s, %s, %s)' % (n, coq_list(coq_list(q(v) for v in r) for r in obs['D']), coq_list(q(v) for v in obs['T']),
                                       coq_list(q(v) for v in obs['ac']), coq_list(optq(v) for v in obs['speed']))


def oracle(case, obs):
    if 'exc' in obs:
        return 'computeAbsCurv / estimate_speed raised %s' % obs['exc']
    pts = case['pts']
    n = len(pts)
    d = lambda a, b: math.hypot(pts[a][0] - pts[b][0], pts[a][1] - pts[b][1])
    t = [case['t'][i] + case['ms'][i] / 1000.0 for i in range(n)]
    ac = obs['ac']
    close = lambda a, b: abs(a - b) <= 1e-9 * (1 + abs(b))
    if len(ac) != n or ac[0] != 0:
        return 'abs_curv = %r does not start at 0 with one value per fix' % ac
    for i in range(1, n):
        if not close(ac[i] - ac[i - 1], d(i, i - 1)) or ac[i] < ac[i - 1]:
            return 'abs_curv grows by %r between fixes %d and %d whose planimetric distance is %r' % (ac[i] - ac[i - 1], i - 1, i, d(i, i - 1))
    if not close(ac[-1], sum(d(i, i - 1) for i in range(1, n))):
        return 'abs_curv ends at %r, planimetric length %r' % (ac[-1], sum(d(i, i - 1) for i in range(1, n)))
    if obs['ret'] != ac or obs['ac2'] != ac or obs['ret2'] != ac:
        return 'the returned list, the feature and a repeated computation differ: %r %r %r' % (obs['ret'], ac, obs['ac2'])
    if obs['names1'] != ['abs_curv'] or sorted(obs['names2']) != ['abs_curv', 'speed']:
        return 'features after computeAbsCurv: %r, after estimate_speed: %r' % (obs['names1'], obs['names2'])
    if not obs['frame']:
        return 'positions or timestamps changed'
    for i in range(n):
        a, b = (1, 0) if i == 0 else ((n - 1, n - 2) if i == n - 1 else (i + 1, i - 1))
        dt = t[a] - t[b]
        exp = None if dt == 0 else d(a, b) / dt
        for got in (obs['speed'][i], obs['speed_fn'][i]):
            if (got is None) != (exp is None) or (exp is not None and not close(got, exp)):
                return 'speed at fix %d is %r, expected %r (neighbours %d and %d, elapsed %r s)' % (i, got, exp, a, b, dt)
    return None


def shrink(case):
    n = len(case['pts'])
    if n > 2:
        for i in range(n):
            yield {k: (v[:i] + v[i + 1:] if isinstance(v, list) else v) for k, v in case.items()}


STREAMS = [Stream(
    name='kin', budget={'quick': 800, 'thorough': 20000},
    rule=('tracks of 2..12 fixes: 40% with axis-parallel / Pythagorean legs (exact distances, repeated positions), 60% on a quarter-integer lattice with a repeated position, '
          'random heights (must not matter), non-decreasing timestamps with repeats and half-second parts; observed: computeAbsCurv return value and feature (twice), '
          'estimate_speed and analytics.speed at every fix, feature names, positions and timestamps before/after; non-trivial = at least 3 fixes'),
    imports=IMPORTS, case_type='nat * list (list Q) * list Q * list Q * list (option Q)', check_def=CHECK,
    generate=generate, run_impl=run_impl, coq_case=coq_case, oracle=oracle, shrink=shrink,
    nontrivial=lambda c, o: len(c['pts']) >= 3,
    klass=lambda c, o: 'n=%d,dup_t=%s' % (len(c['pts']), len(set(zip(c['t'], c['ms']))) < len(c['t'])))]
