"""C19 - grid summarising conserves observations and aggregates per cell"""
import math
from fractions import Fraction as F
from core import Stream, q, optq, coq_list, isnan

PROP = 'C19'
THEOREM_FILE = 'Props/C19.v'
NOTES = ['collections whose bounding box has positive width and height (the hypothesis xmin < xmax, ymin < ymax of the footprint theorem; a zero-extent box gives a grid without rows or columns)',
         'coordinates, margins and resolutions are dyadic so that the cell arithmetic is exact in binary64; sums and means compared to 1e-9']
nan = float('nan')
NO_DATA = -99999.0
OPS = ['co_count', 'co_sum', 'co_min', 'co_max', 'co_avg', 'co_median']
IMPORTS = 'From Coq Require Import List ZArith QArith Qabs Bool.\nImport ListNotations.\nFrom TL Require Import Model.Raster Model.Aggregates.\nOpen Scope Q_scope.'


# ------------------------------------------------------------------ getCell

def gen_cell(rng, n, tier):
    out = []
    for _ in range(n // 8):
        x0 = rng.randint(-8, 8) / 4; y0 = rng.randint(-8, 8) / 4
        ax = rng.randint(1, 40) / 4; ay = rng.randint(1, 40) / 4
        rx = rng.choice([0.25, 0.5, 1, 1.5, 2, 3]); ry = rng.choice([0.25, 0.5, 1, 1.5, 2, 3])
        if rng.random() < 0.25:                      # an extent a sliver (2^-33, 2^-30) above / below a whole number of cells: one more / no more row or column, exact in binary
            e = rng.choice([2.0 ** -33, 2.0 ** -30, -2.0 ** -33])
            if rng.random() < 0.7:
                ay = max(1, round(ay / ry)) * ry + e
            else:
                ax = max(1, round(ax / rx)) * rx + e
        pts = [[x0 + rng.randint(-1, int(ax * 4) + 1) / 4, y0 + rng.randint(-1, int(ay * 4) + 1) / 4] for _ in range(6)]
        pts += [[x0, y0], [x0 + ax, y0 + ay]]
        out.append({'box': [x0, y0, x0 + ax, y0 + ay], 'res': [rx, ry], 'pts': pts})
    return out


def run_cell(case):
    from tracklib.core import ENUCoords, Bbox, Raster
    x0, y0, x1, y1 = case['box']
    r = Raster(Bbox(ENUCoords(x0, y0, 0), ENUCoords(x1, y1, 0)), resolution=tuple(case['res']), margin=0.0)
    cells = []
    for x, y in case['pts']:
        c = r.getCell(ENUCoords(x, y, 0))
        cells.append(None if c is None else [int(c[0]), int(c[1])])
    return {'cells': cells, 'ext': [r.xmin, r.xmax, r.ymin, r.ymax], 'ncol': r.ncol, 'nrow': r.nrow}


def rlit(ext, res):
    return '{| xmin := %s; xmax := %s; ymin := %s; ymax := %s; rx := %s; ry := %s |}' % (q(ext[0]), q(ext[1]), q(ext[2]), q(ext[3]), q(res[0]), q(res[1]))


def coq_cell(case, obs):
    if 'exc' in obs:
        return None
    pts = coq_list('(%s, %s, %s)' % (q(x), q(y), 'None' if c is None else 'Some (%d, %d)%%Z' % tuple(c)) for (x, y), c in zip(case['pts'], obs['cells']))
    return '(%s, (%d)%%Z, (%d)%%Z, %s)' % (rlit(obs['ext'], case['res']), obs['ncol'], obs['nrow'], pts)


def footprint_cell(ext, res, ncol, nrow, x, y):
    """the unique cell whose footprint contains (x, y): half-open, closed on the outer max borders; rows counted from the top"""
    xmin, xmax, ymin, ymax = map(F, ext)
    x, y = F(x), F(y)
    if not (xmin <= x <= xmax and ymin <= y <= ymax):
        return None
    cx = math.floor((x - xmin) / F(res[0]))
    cy = math.floor((y - ymin) / F(res[1]))
    cx = min(cx, ncol - 1)
    cy = min(cy, nrow - 1)
    return [cx, nrow - 1 - cy]


def oracle_cell(case, obs):
    if 'exc' in obs:
        return 'Raster / getCell raised %s' % obs['exc']
    ext = list(map(F, obs['ext']))
    nc = math.ceil((ext[1] - ext[0]) / F(case['res'][0])); nr = math.ceil((ext[3] - ext[2]) / F(case['res'][1]))
    if (obs['ncol'], obs['nrow']) != (nc, nr):
        return 'the raster has %d x %d cells, an extent of %r at resolution %r needs %d x %d to cover it' % (obs['ncol'], obs['nrow'], obs['ext'], case['res'], nc, nr)
    for (x, y), c in zip(case['pts'], obs['cells']):
        e = footprint_cell(obs['ext'], case['res'], obs['ncol'], obs['nrow'], x, y)
        if c != e:
            return 'getCell(%r, %r) = %r but the cell whose footprint contains the point is %r (extent %r, resolution %r)' % (x, y, c, e, obs['ext'], case['res'])
    return None


S_CELL = Stream(
    name='cell', budget={'quick': 2400, 'thorough': 40000},
    rule=('rasters with quarter-integer origin and extent, resolutions from {0.25 .. 3} (dividing the extent or not), margin 0; query points on a quarter-integer lattice including '
          'cell borders, the outer borders, the corners and points outside; observed: Raster.getCell, ncol, nrow; non-trivial = some point inside'),
    imports=IMPORTS, case_type='raster * Z * Z * list (Q * Q * option (Z * Z))',
    check_def='''Definition ceq (a b : option (Z * Z)) : bool := match a, b with Some (a1, a2), Some (b1, b2) => Z.eqb a1 b1 && Z.eqb a2 b2 | None, None => true | _, _ => false end.
Definition ok (c : raster * Z * Z * list (Q * Q * option (Z * Z))) : bool :=
  let '(r, nc, nr, pts) := c in Z.eqb (ncol r) nc && Z.eqb (nrow r) nr && forallb (fun '(x, y, e) => ceq (get_cell r x y) e) pts.''',
    generate=gen_cell, run_impl=run_cell, coq_case=coq_cell, oracle=oracle_cell,
    nontrivial=lambda c, o: 'cells' in o and any(x is not None for x in o['cells']), klass=lambda c, o: 'res=%s' % c['res'])


# ------------------------------------------------------------------ summarize

def gen_sum(rng, n, tier):
    out = []
    for _ in range(n):
        nt = rng.randint(1, 4)
        W = rng.choice([2, 4, 6, 8]); H = rng.choice([2, 4, 6])
        tracks = []
        for _ in range(nt):
            k = rng.randint(1, 6)
            tracks.append([[rng.randint(0, W * 2) / 2.0, rng.randint(0, H * 2) / 2.0, (None if rng.random() < 0.2 else float(rng.choice([0, 1, 2, -3, 7, 0.5, 2.25])))] for _ in range(k)])
        tracks[0][0][0] = 0.0; tracks[0][0][1] = 0.0
        tracks[0].append([float(W), float(H), 1.0])       # the bounding box is [0,W] x [0,H]
        if rng.random() < 0.25:
            # a nearly stationary receiver straddling a cell border: consecutive fixes some tens of micrometres apart (exact in binary), on either side of it
            t = rng.choice(tracks); e = rng.choice([2.0 ** -15, 2.0 ** -16])
            bx = float(rng.randint(1, W - 1)); by = float(rng.randint(1, H - 1))
            if rng.random() < 0.5:
                t += [[bx - e, by + 0.25, 3.0], [bx + e, by + 0.25, 5.0], [bx - e, by + 0.25, 7.0]]
            else:
                t += [[bx + 0.25, by + e, 3.0], [bx + 0.25, by - e, 5.0]]
        nodata = None
        if rng.random() < 0.2:
            nodata = rng.choice([-999999, -999999.0, 7])
            for t in tracks:
                for pnt in t:
                    if rng.random() < 0.3:
                        pnt[2] = float(nodata)
        out.append({'tracks': tracks, 'nodata': nodata, 'res': [rng.choice([0.5, 1, 2, 3]), rng.choice([0.5, 1, 2, 3])], 'margin': rng.choice([0.0, 0.0, 0.25, 0.5]),
                    'order': rng.sample(OPS, len(OPS)), 'layout': rng.choice([None, None, [False, True], [True, False, True]]), 'again': rng.choice([None, None, None, 'same', 'other']), 'fname': rng.choice(['f', 'f', 'f', 'd', 'id', 'u', 'i', 'ui', 'v', 'speed2']), 'nanz': rng.random() < 0.2, 'second': rng.random() < 0.25})
    return out


def hval(v, i):
    """the second feature: defined where the first is not, and at every third observation"""
    return float(i + 1) if (v is None or i % 3 == 0) else nan


def run_sum(case):
    import sys
    from tracklib.core import ObsTime, ENUCoords, Obs, Track, TrackCollection
    import tracklib.algo.summarising
    import tracklib.core.utils as U
    sm = sys.modules['tracklib.algo.summarising']
    trs = []
    FN = case.get('fname', 'f')                      # the name of the summarised feature is the user's: short names, pieces of the reserved name "uid"
    for pts in case['tracks']:
        zz = (lambda i: nan if (i + len(trs)) % 3 == 0 else 12.5) if case.get('nanz') else (lambda i: 0)      # a 2-D survey: some altitudes unknown; the grid is planimetric
        t = Track([Obs(ENUCoords(x, y, zz(i)), ObsTime.readUnixTime(i)) for i, (x, y, v) in enumerate(pts)], user_id=11 + len(trs))
        if case.get('layout') and case['layout'][len(trs) % len(case['layout'])]:
            t.createAnalyticalFeature('g', [1000.0 + i for i in range(len(pts))])      # another feature created first on this track: 'f' is not stored at the same index on every track
        t.createAnalyticalFeature(FN, [nan if v is None else v for (_, _, v) in pts])
        if case.get('second'):                      # a second summarised feature, undefined at other observations than the first one
            t.createAnalyticalFeature('h', [hval(v, i) for i, (_, _, v) in enumerate(pts)])
        if case.get('nodata') is not None:
            t.no_data_value = case['nodata']          # the marker a file reader leaves on its tracks; a measured value may be equal to it
        trs.append(t)
    col = TrackCollection(trs)
    ops = [getattr(U, o) for o in case.get('order', OPS)]          # the aggregates are computed in the order they are asked for: every order must give the same maps
    if case.get('second'):
        r = sm.summarize(col, [FN] * len(ops) + ['h', 'h'], ops + [U.co_count, U.co_sum], resolution=tuple(case['res']), margin=case['margin'], verbose=False)
    else:
        r = sm.summarize(col, [FN] * len(ops), ops, resolution=tuple(case['res']), margin=case['margin'], verbose=False)
    if case.get('again'):
        # the raster is used again: the same collection is summarised on it a second time, or another collection (other values at some of the same places) in between;
        # the maps describe the collection added last
        if case['again'] == 'other':
            t2 = Track([Obs(ENUCoords(x, y, 0), ObsTime.readUnixTime(i)) for i, (x, y, v) in enumerate(case['tracks'][0])])
            t2.createAnalyticalFeature(FN, [100.0 + i for i in range(t2.size())])
            if case.get('second'):
                t2.createAnalyticalFeature('h', [7.0] * t2.size())
            r.addCollectionToRaster(TrackCollection([t2])); r.computeAggregates()
        r.addCollectionToRaster(col); r.computeAggregates()
    grids = {}
    for o in OPS:
        g = r.getAFMap(FN + '#' + o).grid
        grids[o] = [[float(g[i][j]) for j in range(r.ncol)] for i in range(r.nrow)]
    if case.get('second') and not case.get('again'):
        for o in ('co_count', 'co_sum'):
            g = r.getAFMap('h#' + o).grid
            grids['h#' + o] = [[float(g[i][j]) for j in range(r.ncol)] for i in range(r.nrow)]
    cells = [[None if c is None else [int(c[0]), int(c[1])] for c in [r.getCell(ENUCoords(x, y, 0)) for (x, y, v) in pts]] for pts in case['tracks']]
    return {'ext': [r.xmin, r.xmax, r.ymin, r.ymax], 'ncol': r.ncol, 'nrow': r.nrow, 'grids': grids, 'cells': cells}


def coq_sum(case, obs):
    if 'exc' in obs:
        return None
    pts = coq_list('(%s, %s, %s)' % (q(x), q(y), optq(v)) for t in case['tracks'] for (x, y, v) in t)
    grids = coq_list(coq_list(coq_list(q(v) for v in row) for row in obs['grids'][o]) for o in OPS)
    return '(%s, %s, %s)' % (rlit(obs['ext'], case['res']), pts, grids)


def agg_ref(op, vals):
    v = [x for x in vals if x is not None]
    if op == 'co_count':
        return float(len(v))
    if op == 'co_sum':
        return float(sum(map(F, v)))
    if not v:
        return NO_DATA
    if op == 'co_min':
        return min(v)
    if op == 'co_max':
        return max(v)
    if op == 'co_avg':
        return float(sum(map(F, v)) / len(v))
    s = sorted(v)
    n = len(s)
    return s[(n - 1) // 2] if n % 2 else 0.5 * (s[n // 2] + s[n // 2 - 1])


def oracle_sum(case, obs):
    if 'exc' in obs:
        return 'summarize raised %s' % obs['exc']
    nrow, ncol = obs['nrow'], obs['ncol']
    buckets = {}
    nobs = 0
    for t in case['tracks']:
        for (x, y, v) in t:
            c = footprint_cell(obs['ext'], case['res'], ncol, nrow, x, y)
            if c is None:
                return 'observation (%r, %r) lies outside the grid extent %r' % (x, y, obs['ext'])
            buckets.setdefault((c[1], c[0]), []).append(v)
            nobs += 1
    total = sum(obs['grids']['co_count'][i][j] for i in range(nrow) for j in range(ncol))
    nvalid = sum(1 for t in case['tracks'] for (_, _, v) in t if v is not None)
    if total != nvalid:
        return 'counts over all cells add up to %r for %d observations with a value (%d observations)' % (total, nvalid, nobs)
    if 'h#co_count' in obs['grids']:
        hb = {}
        for t in case['tracks']:
            for i, (x, y, v) in enumerate(t):
                c = footprint_cell(obs['ext'], case['res'], ncol, nrow, x, y)
                hv = hval(v, i)
                hb.setdefault((c[1], c[0]), []).append(None if hv != hv else hv)
        for o in ('co_count', 'co_sum'):
            g = obs['grids']['h#' + o]
            for i in range(nrow):
                for j in range(ncol):
                    e = agg_ref(o, hb.get((i, j), []))
                    if abs(g[i][j] - e) > 1e-9 * (1 + abs(e)):
                        return '%s of the second feature in cell (row %d, column %d) is %r; over its values %r located in that cell it is %r' % (o, i, j, g[i][j], hb.get((i, j), []), e)
    for o in OPS:
        g = obs['grids'][o]
        if len(g) != nrow or any(len(r) != ncol for r in g):
            return 'grid of %s has the wrong shape' % o
        for i in range(nrow):
            for j in range(ncol):
                e = agg_ref(o, buckets.get((i, j), []))
                if abs(g[i][j] - e) > 1e-9 * (1 + abs(e)):
                    return '%s of cell (row %d, column %d) is %r; over the values %r located in that cell it is %r' % (o, i, j, g[i][j], buckets.get((i, j), []), e)
    return None


def shrink_sum(case):
    ts = case['tracks']
    for i in range(1, len(ts)):
        c = dict(case); c['tracks'] = ts[:i] + ts[i + 1:]
        yield c
    for i, t in enumerate(ts):
        lo = 1 if i == 0 else 0
        hi = len(t) - 1 if i == 0 else len(t)
        for k in range(lo, hi):
            if len(t) > 1:
                c = dict(case); c['tracks'] = ts[:i] + [t[:k] + t[k + 1:]] + ts[i + 1:]
                yield c


S_SUM = Stream(
    name='summarize', budget={'quick': 250, 'thorough': 6000},
    rule=('collections of 1..4 tracks of 1..7 fixes on half-integer coordinates (cell borders, outer border, corners), a feature with ~20% NaN, resolutions square and not, '
          'margins {0, 0.25, 0.5}, the six aggregates count/sum/min/max/avg/median at once; observed: every AFMap.grid; non-trivial = some cell holds >= 2 observations'),
    imports=IMPORTS, case_type='raster * list (Q * Q * option Q) * list (list (list Q))',
    check_def='''Definition close (a b : Q) : bool := Qle_bool (Qabs (a - b)) ((1 # 1000000000) * (1 + Qabs b)).
Definition ops : list aggop := [OpCount; OpSum; OpMin; OpMax; OpAvg; OpMedian].
Definition vals_of (r : raster) (pts : list (Q * Q * option Q)) (line col : Z) : list (option Q) :=
  flat_map (fun '(x, y, v) => match get_cell r x y with Some (c, l) => if Z.eqb c col && Z.eqb l line then [v] else [] | None => [] end) pts.
Definition ok (c : raster * list (Q * Q * option Q) * list (list (list Q))) : bool :=
  let '(r, pts, grids) := c in
  forallb (fun k =>
    let g := nth k grids [] in let op := nth k ops OpCount in
    Z.eqb (Z.of_nat (length g)) (nrow r) &&
    forallb (fun i => let row := nth i g [] in Z.eqb (Z.of_nat (length row)) (ncol r) &&
      forallb (fun j => close (aggregate op (vals_of r pts (Z.of_nat i) (Z.of_nat j))) (nth j row 0)) (seq 0 (length row))) (seq 0 (length g)))
  (seq 0 6) && forallb (fun '(x, y, _) => match get_cell r x y with Some _ => true | None => false end) pts.''',
    generate=gen_sum, run_impl=run_sum, coq_case=coq_sum, oracle=oracle_sum, shrink=shrink_sum,
    nontrivial=lambda c, o: 'grids' in o and any(v >= 2 for row in o['grids']['co_count'] for v in row),
    klass=lambda c, o: 'margin=%s' % c['margin'])

STREAMS = [S_CELL, S_SUM]
