"""C16 - simplification keeps end points, only drops fixes, honours its tolerance"""
import math
from fractions import Fraction as F
from core import Stream, q, fl, coq_list

import genmodels
generated_model = genmodels.geometry_generated_model      # second tie: the geometry kernels translated from the source on every run and proved equal to the model

PROP = 'C16'
THEOREM_FILE = 'Props/C16.v'
NOTES = ['Douglas-Peucker: the float instance of the generic model is compared decision for decision (kept fixes identical); the theorems are about its real instance',
         'Visvalingam: exact Q model on dyadic coordinates and tolerances (triangle areas and eps^2 exact in binary64)',
         'positive tolerances; tracks of at least 2 fixes']


def mktrack(pts, tmode='inc'):
    # the height carries the identity of the fix (simplification is planimetric); the timestamps are increasing, all equal (a file without
    # time column), decreasing (a reversed track) or out of order: simplification must not look at them
    from tracklib.core import ObsTime, ENUCoords, Obs, Track
    n = len(pts)
    stamp = lambda i: {'inc': i, 'equal': 0, 'dec': n - i, 'shuffle': (i * 7) % 5}[tmode]
    return Track([Obs(ENUCoords(x, y, float(i)), ObsTime.readUnixTime(stamp(i))) for i, (x, y) in enumerate(pts)])


def kept(out):
    return [int(out.getObs(i).position.getZ()) for i in range(out.size())]


def seg_dist(p, a, b):
    x0, y0 = map(F, p); x1, y1 = map(F, a); x2, y2 = map(F, b)
    L2 = (x2 - x1) ** 2 + (y2 - y1) ** 2
    if L2 == 0:
        return math.sqrt((x0 - x1) ** 2 + (y0 - y1) ** 2)
    t = max(F(0), min(F(1), ((x0 - x1) * (x2 - x1) + (y0 - y1) * (y2 - y1)) / L2))
    return math.sqrt((x0 - x1 - t * (x2 - x1)) ** 2 + (y0 - y1 - t * (y2 - y1)) ** 2)


def common_oracle(case, obs, name, tolerance_check):
    if 'exc' in obs:
        return '%s raised %s on %r (tolerance %r)' % (name, obs['exc'], case['pts'], case['eps'])
    n = len(case['pts'])
    k = obs['kept']
    if any(a >= b for a, b in zip(k, k[1:])) or any(not (0 <= i < n) for i in k):
        return '%s: kept fixes %r are not a subsequence of the input in its original order' % (name, k)
    if not k or k[0] != 0 or k[-1] != n - 1:
        return '%s: kept fixes %r do not contain the first and the last observation (n=%d)' % (name, k, n)
    if obs['src'] != n:
        return '%s modified the source track' % name
    if tolerance_check and n > 200:                    # long tracks: the same check in binary64 (a margin of 1e-9 of the extent)
        pts = case['pts']
        def fd(p, a, b):
            L2 = (b[0] - a[0]) ** 2 + (b[1] - a[1]) ** 2
            t = 0.0 if L2 == 0 else max(0.0, min(1.0, ((p[0] - a[0]) * (b[0] - a[0]) + (p[1] - a[1]) * (b[1] - a[1])) / L2))
            return math.hypot(p[0] - a[0] - t * (b[0] - a[0]), p[1] - a[1] - t * (b[1] - a[1]))
        j = 0
        for i in range(n):
            while j + 1 < len(k) - 1 and k[j + 1] <= i:
                j += 1
            d = min(fd(pts[i], pts[k[j]], pts[k[j + 1]]), min(fd(pts[i], pts[a], pts[b]) for a, b in zip(k, k[1:])) if len(k) < 60 else 1e300)
            if d > case['eps'] * (1 + 1e-9) + 1e-6:
                return '%s: input fix %d of %d is %r away from the simplified polyline (%d fixes kept), tolerance %r' % (name, i, n, d, len(k), case['eps'])
    elif tolerance_check:
        pts = case['pts']
        for i in range(n):
            d = min(seg_dist(pts[i], pts[a], pts[b]) for a, b in zip(k, k[1:])) if len(k) > 1 else seg_dist(pts[i], pts[k[0]], pts[k[0]])
            if d > case['eps'] * (1 + 1e-9) + 1e-12 + 2e-15 * max(abs(v) for p in pts for v in p):      # (last term: what coordinates of that magnitude can resolve, 2e-8 at 7e6)
                return '%s: input fix %d is %r away from the simplified polyline %r, tolerance %r' % (name, i, d, k, case['eps'])
    return None


def shrink(case):
    pts = case['pts']
    if len(pts) > 3:
        for i in range(len(pts)):
            yield dict(case, pts=pts[:i] + pts[i + 1:])


def gen_pts(rng, sc, n, dyadic):
    style = rng.random()
    if rng.random() < 0.15:
        # out-and-back along an exactly vertical or horizontal line, with a small lateral wobble on some fixes: fixes that project beyond
        # the ends of an axis-parallel chord
        vert = rng.random() < 0.6
        c0 = rng.randint(-5, 5) * sc; t = 0.0; pts = []
        for i in range(n):
            t += rng.randint(-12, 12) * sc
            w = rng.choice([0, 0, 0, 1, -1]) * sc * rng.choice([0.01, 0.5])
            pts.append([c0 + w, t] if vert else [t, c0 + w])
        pts[0] = [c0, pts[0][1]] if vert else [pts[0][0], c0]
        pts[-1] = [c0, pts[-1][1]] if vert else [pts[-1][0], c0]
        return pts
    pts = []
    x = 0.0; y = 0.0
    for i in range(n):
        x += rng.randint(-3 if style < 0.4 else 0, 20) * sc
        y += rng.randint(-10, 10) * sc * rng.choice([0, 1, 1])
        pts.append([x, y])
    r = rng.random()
    if r < 0.25 and n >= 3:
        pts[-1] = list(pts[0])                       # closed loop
    if r > 0.6 and n >= 3:
        i = rng.randrange(1, n)
        pts[i] = list(pts[i - 1])                    # consecutive duplicate
    if 0.45 < r < 0.6 and n >= 4:
        pts[rng.randrange(2, n)] = list(pts[0])      # revisit
    return pts


# ------------------------------------------------------------------ Douglas-Peucker

def gen_dp(rng, n, tier):
    out = []
    for _ in range(n):
        sc = rng.choice([1, 0.1, 0.37, 0.25])
        k = rng.randint(2, 15)
        pts = gen_pts(rng, sc, k, False)
        if rng.random() < 0.1:
            pts = [[i * sc, 0.0] for i in range(k)]      # all collinear
        eps = rng.choice([0.001, 0.05, 0.5, 2, 5, 20, 100, 1000]) * sc
        if rng.random() < 0.5:
            # boundary class: tolerance just below / above a distance that decides a split (fix to chord of a piece)
            # or the extent of the track (what a bounding-box shortcut would compare with)
            cands = []
            i = rng.randrange(len(pts)); a = rng.randrange(len(pts)); b = rng.randrange(len(pts))
            cands.append(seg_dist(pts[i], pts[a], pts[b]))
            cands.append(max(seg_dist(p, pts[0], pts[-1]) for p in pts))
            xs = [p[0] for p in pts]; ys = [p[1] for p in pts]
            cands += [max(xs) - min(xs), max(ys) - min(ys), math.hypot(max(xs) - min(xs), max(ys) - min(ys))]
            c = rng.choice([v for v in cands if v > 0] or [sc])
            eps = c * rng.choice([0.9, 0.99, 1.01, 1.1, 1.2, 1.35])
        if rng.random() < 0.05:
            # a tolerance below the rounding of the distances (1e-16 of the extent and less) on a track with repeated fixes and exactly collinear runs:
            # the recursion must still end, on pieces whose interior fixes are all at distance (about) zero
            a = [rng.randint(-5, 5) * sc, rng.randint(-5, 5) * sc]; b = [a[0] + rng.choice([3, 7, -2, 5]) * sc, a[1] + rng.choice([1, 3, -1, 2]) * sc]
            pts = rng.choice([[a, a, b], [a, b, b], [a, a, b, b], [a, [(a[0] + b[0]) / 2, (a[1] + b[1]) / 2], b], [a, a, b, a, a], [b, a, a, b]])
            pts = [list(p) for p in pts]
            eps = rng.choice([1e-16, 3e-17, 1e-18, 1e-300]) * sc
        if rng.random() < 0.06:
            # projected coordinates (a large common offset, as eastings / northings), fixes every few decimetres wobbling by millimetres, a millimetre tolerance:
            # distances are differences of nearby large numbers
            X0, Y0 = rng.choice([(651000.0, 6861000.0), (448250.0, 5411950.0)])
            step = rng.choice([0.05, 0.25, 0.5]); k = rng.randint(5, 15); ang = rng.uniform(0, math.pi)
            pts = []
            for i in range(k):
                w = rng.choice([0.0, 0.0041, -0.0033, 0.0062, -0.0047, 0.0023])        # (no exact tie with the tolerances)
                pts.append([X0 + step * i * math.cos(ang) - w * math.sin(ang), Y0 + step * i * math.sin(ang) + w * math.cos(ang)])
            eps = rng.choice([0.001, 0.002, 0.003])
        out.append({'pts': pts, 'eps': eps, 'tmode': rng.choice(['inc', 'inc', 'equal', 'dec', 'shuffle'])})
    for r in range(max(3, n // 300)):
        # long tracks (more than a thousand fixes), of the shapes where the farthest fix from the chord's line is not the farthest from the chord:
        # out-and-back along a street, a closed circle, a collinear run overshooting its end (oracle only)
        shape = rng.choice(['deadend', 'circle', 'overshoot', 'sawtooth']) if r else 'sawtooth'
        m = rng.choice([1201, 1501])
        if shape == 'sawtooth':
            # a saw-tooth (a boat tacking, a mower): the farthest fix from the chord is always next to an end of the piece, so the recursion is as deep as the track is long
            # (several hundred levels; the interpreter's own limit is reached near a thousand)
            m = rng.choice([650, 800]); amp = rng.choice([5.0, 3.0]); damp = rng.choice([1.0, 0.999])
            pts = [[float(i), amp * (damp ** i) * (1 if i % 2 else -1)] for i in range(m)]
            out.append({'pts': pts, 'eps': rng.choice([0.5, 2]), 'tmode': 'inc'})
            continue
        if shape == 'deadend':
            pts = [[float(i), 0.0] for i in range(0, 2 * m // 3)] + [[float(2 * m // 3 - j), 0.0] for j in range(m - 2 * m // 3)]
        elif shape == 'circle':
            pts = [[100 * math.cos(2 * math.pi * i / (m - 1)), 100 * math.sin(2 * math.pi * i / (m - 1))] for i in range(m - 1)]
            pts.append(list(pts[0]))
        else:
            pts = [[float(i) * 0.5, 0.0] for i in range(m - 200)] + [[(m - 200) * 0.5 - 0.5 * j, 0.0] for j in range(200)]
        out.append({'pts': pts, 'eps': rng.choice([0.01, 0.5, 5, 50]), 'tmode': 'inc'})
    return out


def run_dp(case):
    import sys, tracklib.algo.simplification
    sp = sys.modules['tracklib.algo.simplification']
    tr = mktrack(case['pts'], case.get('tmode', 'inc'))
    out = sp.simplify(tr, case['eps'], sp.MODE_SIMPLIFY_DOUGLAS_PEUCKER)
    return {'kept': kept(out), 'src': tr.size()}


def coq_dp(case, obs):
    if 'exc' in obs or len(case['pts']) > 200:
        return None
    return '(%s, %s, %s%%nat)' % (coq_list('(%s, %s)' % (fl(a), fl(b)) for a, b in case['pts']), fl(case['eps']), coq_list(map(str, obs['kept'])))


S_DP = Stream(
    name='douglas_peucker', budget={'quick': 900, 'thorough': 25000},
    rule=('tracks of 2..15 fixes at scales 1, 0.1, 0.37, 0.25 with collinear runs, consecutive duplicates, revisits and closed loops (first = last); tolerances from 1e-3 to 1e3 times the scale; '
          'observed through simplify(track, tol, DOUGLAS_PEUCKER): the kept fixes; non-trivial = at least 3 fixes'),
    imports='From Coq Require Import List Arith PrimFloat.\nImport ListNotations.\nFrom TL Require Import Model.Num Model.SimplifyG.',
    case_type='list (float * float) * float * list nat',
    check_def='''Fixpoint number {A} (i : nat) (l : list A) : list (A * nat) := match l with [] => [] | x :: r => (x, i) :: number (S i) r end.
Definition ok (c : list (float * float) * float * list nat) : bool := let '(pts, eps, kept) := c in
  let out := dp FNum (length pts) eps ((0%float, 0%float), 0%nat) (number 0 pts) in if list_eq_dec Nat.eq_dec (map snd out) kept then true else false.''',
    generate=gen_dp, run_impl=run_dp, coq_case=coq_dp, shrink=shrink,
    oracle=lambda c, o: common_oracle(c, o, 'Douglas-Peucker', True),
    nontrivial=lambda c, o: len(c['pts']) >= 3,
    klass=lambda c, o: 'loop' if c['pts'][0] == c['pts'][-1] else ('dup' if any(a == b for a, b in zip(c['pts'], c['pts'][1:])) else 'plain'))


# ------------------------------------------------------------------ distance_to_segment on its own

def gen_ds(rng, n, tier):
    out = []
    for _ in range(n):
        sc = rng.choice([1, 0.1, 0.37, 0.25])
        x1 = rng.randint(-50, 50) * sc; y1 = rng.randint(-50, 50) * sc
        k = rng.random()
        if k < 0.3:
            x2, y2 = x1, y1 + rng.randint(-40, 40) * sc           # exactly vertical (or a point)
        elif k < 0.5:
            x2, y2 = x1 + rng.randint(-40, 40) * sc, y1           # exactly horizontal
        else:
            x2, y2 = x1 + rng.randint(-40, 40) * sc, y1 + rng.randint(-40, 40) * sc
        t = rng.choice([-0.7, -0.1, 0.0, 0.3, 1.0, 1.2, 2.5, rng.uniform(-1, 2)])
        off = rng.choice([0, 0, 1, -3, 0.01]) * sc
        L = math.hypot(x2 - x1, y2 - y1) or 1.0
        x0 = x1 + t * (x2 - x1) - off * (y2 - y1) / L; y0 = y1 + t * (y2 - y1) + off * (x2 - x1) / L
        out.append({'p': [x0, y0], 'a': [x1, y1], 'b': [x2, y2]})
    return out


def run_ds(case):
    from tracklib.util.geometry import distance_to_segment
    return {'d': float(distance_to_segment(case['p'][0], case['p'][1], case['a'][0], case['a'][1], case['b'][0], case['b'][1]))}


def oracle_ds(case, obs):
    if 'exc' in obs:
        return 'distance_to_segment raised %s' % obs['exc']
    d = seg_dist(case['p'], case['a'], case['b'])
    if abs(obs['d'] - d) > 1e-11 * (1 + abs(d) + max(abs(v) for v in case['p'] + case['a'] + case['b'])):      # a few hundred ulps of the coordinates: the foot-point formula is that accurate, a difference of squares is not
        return 'distance_to_segment(%r, segment %r-%r) = %r, the distance to the segment is %r' % (case['p'], case['a'], case['b'], obs['d'], d)
    return None


S_DS = Stream(
    name='distance_to_segment', budget={'quick': 1500, 'thorough': 40000},
    rule=('util.geometry.distance_to_segment on its own: segments of every orientation incl. exactly vertical, exactly horizontal and degenerate (a point), query points whose foot falls before, at, inside and beyond '
          'the ends, on the supporting line or beside it; compared bit for bit with the binary64 instance of the model and with the exact distance to the segment'),
    imports='From Coq Require Import List PrimFloat Bool.\nImport ListNotations.\nFrom TL Require Import Model.Num Model.SimplifyG.',
    case_type='float * float * float * float * float * float * float',
    check_def="Definition ok (c : float * float * float * float * float * float * float) : bool := let '(x0, y0, x1, y1, x2, y2, d) := c in PrimFloat.eqb (distance_to_segment FNum x0 y0 x1 y1 x2 y2) d.",
    generate=gen_ds, run_impl=run_ds,
    coq_case=lambda c, o: None if 'exc' in o else '(%s, %s, %s, %s, %s, %s, %s)' % (fl(c['p'][0]), fl(c['p'][1]), fl(c['a'][0]), fl(c['a'][1]), fl(c['b'][0]), fl(c['b'][1]), fl(o['d'])),
    oracle=oracle_ds, klass=lambda c, o: 'vertical' if c['a'][0] == c['b'][0] else ('horizontal' if c['a'][1] == c['b'][1] else 'oblique'))


# ------------------------------------------------------------------ Visvalingam

def gen_vis(rng, n, tier):
    out = []
    for _ in range(n):
        k = rng.randint(2, 12)
        pts = gen_pts(rng, rng.choice([1, 0.25, 0.5]), k, True)
        out.append({'pts': pts, 'eps': rng.choice([0.125, 0.5, 1, 2, 4, 8, 32, 1024]), 'tmode': rng.choice(['inc', 'inc', 'equal', 'dec', 'shuffle']), 'orphan': rng.random() < 0.2})
    return out


def run_vis(case):
    import sys, tracklib.algo.simplification
    sp = sys.modules['tracklib.algo.simplification']
    tr = mktrack(case['pts'], case.get('tmode', 'inc'))
    if case.get('orphan') and tr.size() >= 2:
        # the track is the concatenation of two recordings, the first of which carried a computed feature (its abscissa): the sum lists no feature (the lists differ),
        # its observations still carry the values
        import tracklib.algo.cinematics
        ci = sys.modules['tracklib.algo.cinematics']
        h = max(1, tr.size() // 2)
        A = tr.extract(0, h - 1); B = tr.extract(h, tr.size() - 1) if h < tr.size() else None
        ci.computeAbsCurv(A)
        tr = A + B if B is not None else A
    out = sp.simplify(tr, case['eps'], sp.MODE_SIMPLIFY_VISVALINGAM)
    return {'kept': kept(out), 'src': tr.size(), 'names': [nm for nm in out.getListAnalyticalFeatures() if nm != 'abs_curv']}


def coq_vis(case, obs):
    if 'exc' in obs:
        return None
    return '(%s, %s, %s%%nat)' % (coq_list('(%s, %s)' % (q(a), q(b)) for a, b in case['pts']), q(case['eps']), coq_list(map(str, obs['kept'])))


def oracle_vis(case, obs):
    r = common_oracle(case, obs, 'Visvalingam', False)
    if r:
        return r
    if obs['names']:
        return 'Visvalingam left features listed: %r' % obs['names']
    return None


S_VIS = Stream(
    name='visvalingam', budget={'quick': 700, 'thorough': 20000},
    rule=('tracks of 2..12 fixes on integer / quarter / half lattices with duplicates, revisits and closed loops; tolerances (square root of the area threshold) from 0.125 to 1024; '
          'observed through simplify(track, tol, VISVALINGAM): the kept fixes; non-trivial = at least 3 fixes'),
    imports='From Coq Require Import List Arith QArith.\nImport ListNotations.\nFrom TL Require Import Model.Visvalingam.\nOpen Scope Q_scope.',
    case_type='list (Q * Q) * Q * list nat',
    check_def='''Definition pteq (a b : Q * Q) : bool := Qeq_bool (fst a) (fst b) && Qeq_bool (snd a) (snd b).
Fixpoint match_kept (out : list (Q * Q)) (pts : list (Q * Q)) (i : nat) (kept : list nat) : bool :=
  match out, kept with
  | [], [] => true
  | o :: r, k :: ks => pteq o (nth k pts (0, 0)) && match_kept r pts i ks
  | _, _ => false
  end.
Definition ok (c : list (Q * Q) * Q * list nat) : bool := let '(pts, eps, kept) := c in match_kept (visvalingam pts eps) pts 0 kept.''',
    generate=gen_vis, run_impl=run_vis, coq_case=coq_vis, shrink=shrink, oracle=oracle_vis,
    nontrivial=lambda c, o: len(c['pts']) >= 3,
    klass=lambda c, o: 'loop' if c['pts'][0] == c['pts'][-1] else 'open')

STREAMS = [S_DP, S_DS, S_VIS]
