"""C15 - kernel smoothing is a renormalised local weighted mean"""
import math
from fractions import Fraction as F
from core import Stream, q, optq, coq_list, coq_bool, isnan

PROP = 'C15'
THEOREM_FILE = 'Props/C15.v'
NOTES = ['float rounding of the weighted sums abstracted: outputs compared to 1e-9; kernel sample values are the implementation\'s own Kernel.evaluate (exp etc. trusted)',
         'signals at least as long as the window; even-length kernels raise (outside the property)',
         'the in-place normalisation of a list kernel cancels in sum(v*k)/sum(k) and is not observable in the output']
nan = float('nan')
IMPORTS = 'From Coq Require Import List Arith ZArith QArith Qabs Bool.\nImport ListNotations.\nFrom TL Require Import Model.Filter.\nOpen Scope Q_scope.'
COMMON = '''(* binary64 rounding is relative to the operands, not to a result that may cancel: 1e-9 of the result plus 1e-12 of the largest sample *)
Definition scale (x : list val) : Q := fold_left (fun m v => match v with Some a => if Qle_bool m (Qabs a) then Qabs a else m | None => m end) x 0.
Definition close (s a b : Q) : bool := Qle_bool (Qabs (a - b)) ((1 # 1000000000) * (1 + Qabs b) + (1 # 1000000000000) * s).
Definition cmp (s : Q) (r : option res) (o : val) : bool := match r, o with Some (Val a), Some b => close s a b | None, None => true | Some EmptyWin, None => true | _, _ => false end.
Definition same (b : bool) (x : list val) (k : list Q) (o : list val) : bool :=
  forallb (fun i => cmp (scale x) (filter_out b x k i) (nth i o None)) (seq 0 (length x)) && Nat.eqb (length o) (length x).
'''


def enc(l):
    return [None if isnan(float(v)) else float(v) for v in l]


def mktrack(xs, ys=None, zs=None):
    from tracklib.core import ObsTime, ENUCoords, Obs, Track
    n = len(xs)
    ys = ys or [0.0] * n
    zs = zs or [0.0] * n
    return Track([Obs(ENUCoords(xs[i], ys[i], zs[i]), ObsTime.readUnixTime(100 + i)) for i in range(n)])


def reference(xs, k, boundary):
    """the property's formula, exact arithmetic"""
    n = len(xs); N = len(k); D = N // 2
    out = []
    for i in range(n):
        if not boundary and (i < D or i >= n - D):
            out.append(xs[i])
            continue
        num = F(0); den = F(0)
        for j in range(N):
            p = i - j + D
            if 0 <= p < n and xs[p] is not None:
                num += F(xs[p]) * F(k[j]); den += F(k[j])
        out.append(None if den == 0 else float(num / den))
    return out


def check_out(xs, k, boundary, out, what):
    ref = reference(xs, k, boundary)
    n = len(xs); N = len(k); D = N // 2
    if len(out) != n:
        return '%s: output has %d values for %d observations' % (what, len(out), n)
    sc = max([abs(v) for v in xs if v is not None] or [0])      # binary64 rounding is relative to the operands, not to a result that may cancel
    for i in range(n):
        a, b = out[i], ref[i]
        if (a is None) != (b is None) or (a is not None and abs(a - b) > 1e-9 * (1 + abs(b)) + 1e-12 * sc):
            return '%s: output[%d] = %r, the renormalised weighted mean of the window is %r (input %r, kernel %r, boundary filtered: %r)' % (what, i, a, b, xs, k, boundary)
        if a is not None and (boundary or D <= i < n - D) and all(w >= 0 for w in k):
            win = [xs[p] for p in range(max(0, i - D), min(n, i + D + 1)) if xs[p] is not None]
            tol = 1e-9 * (1 + max(abs(v) for v in win)) if win else 0
            if win and not (min(win) - tol <= a <= max(win) + tol):
                return '%s: output[%d] = %r lies outside the window range [%r, %r]' % (what, i, a, min(win), max(win))
    return None


# ------------------------------------------------------------------ stream list: list kernels on a feature

def gen_list(rng, n, tier):
    out = []
    for _ in range(n):
        k = [rng.choice([1, 2, 3, 5, 0, 0.5]) for _ in range(rng.choice([1, 3, 3, 5, 7]))]
        if sum(k) == 0:
            k[len(k) // 2] = 1
        m = rng.randint(len(k), len(k) + 7)
        r = rng.random()
        if r < 0.15:
            c = rng.choice([0, 2.5, -3])
            xs = [c] * m                                                   # constant signal
        elif r < 0.3:
            xs = sorted(rng.choice([0, 1, 2, -3, 7, 0.5, 2.25]) for _ in range(m))   # monotone
        else:
            xs = [(None if rng.random() < 0.22 else float(rng.choice([0, 1, 2, -3, 7, 0.5, 2.25, 0.1]))) for _ in range(m)]
        r2 = rng.random()
        if r2 < 0.06:                               # the same signal / the same weights in a huge or tiny unit (exact powers of two): a weighted mean does not depend on either
            xs = [None if v is None else v * 2.0 ** 1020 for v in xs]
        elif r2 < 0.12:
            sc = rng.choice([2.0 ** 1000, 2.0 ** -1073, 2.0 ** -500])
            k = [w * sc for w in k]
        if rng.random() < 0.06:
            # a sharply peaked window (light weights 1e-13 of the heavy one) over a signal with isolated undefined samples: where the heavy weight meets one, the mean is that of the light neighbours
            k = rng.choice([[1e-13, 1.0, 1e-13], [2e-13, 1e-13, 5.0, 1e-13, 3e-13], [1e-13, 2.0, 4e-13]])
            m = rng.randint(len(k), len(k) + 6)
            xs = [float(rng.choice([1, 2, -3, 7, 0.5, 2.25])) for _ in range(m)]
            for i in range(len(k) // 2, m - len(k) // 2, 3):
                if rng.random() < 0.7:
                    xs[i] = None
        out.append({'x': xs, 'k': k, 'nodata': rng.choice([None, None, None, 0, 2, 7, -3, 2.5])})
        if len(k) > 1 and rng.random() < 0.15:
            out[-1]['multi'] = rng.choice(['tuple', 'list'])
    return out


def run_list(case):
    from tracklib.core.operators import Operator
    xs = [nan if v is None else float(v) for v in case['x']]
    tr = mktrack(list(range(len(xs))))
    tr.createAnalyticalFeature('a', list(xs))
    if case.get('nodata') is not None:
        tr.no_data_value = case['nodata']         # the marker a file reader leaves on its tracks; a sample equal to it is still a sample
    k = [float(v) for v in case['k']]
    if case.get('multi'):
        # several features filtered in one call (a tuple of inputs, a tuple of outputs), as many as the window has weights: every one of them gets the whole window
        m = len(k)
        ins = ['a'] + ['a%d' % j for j in range(1, m)]; outs = ['b'] + ['b%d' % j for j in range(1, m)]
        for j in range(1, m):
            tr.createAnalyticalFeature(ins[j], [v + j for v in xs])
        tr.operate(Operator.FILTER, tuple(ins) if case['multi'] == 'tuple' else list(ins), k, tuple(outs) if case['multi'] == 'tuple' else list(outs))
        ret = tr['b']
        for j in range(1, m):
            tr.removeAnalyticalFeature(ins[j]); tr.removeAnalyticalFeature(outs[j])
        return {'out': enc(tr['b']), 'ret': enc(ret), 'a': enc(tr['a']), 'names': tr.getListAnalyticalFeatures(), 'x': tr.getX()}
    ret = tr.operate(Operator.FILTER, 'a', k, 'b')
    return {'out': enc(tr['b']), 'ret': enc(ret), 'a': enc(tr['a']), 'names': tr.getListAnalyticalFeatures(), 'x': tr.getX()}


def coq_list_case(case, obs):
    if 'exc' in obs or any(v is not None and abs(v) == float('inf') for v in obs['out']):
        return None                               # an infinity is not a value of the rational model: left to the oracle
    return '(%s, %s, %s)' % (coq_list(optq(v) for v in case['x']), coq_list(q(v) for v in case['k']), coq_list(optq(v) for v in obs['out']))


def oracle_list(case, obs):
    if 'exc' in obs:
        return 'Operator.FILTER raised %s on input %r with kernel %r' % (obs['exc'], case['x'], case['k'])
    r = check_out(case['x'], case['k'], False, obs['out'], 'FILTER')
    if r:
        return r
    if obs['a'] != [None if v is None else float(v) for v in case['x']] or obs['x'] != [float(i) for i in range(len(case['x']))]:
        return 'the input feature or the positions were modified'
    if obs['names'] != ['a', 'b']:
        return 'features after filtering: %r' % obs['names']
    return None


def finding_list(case, obs, why):
    return None


def shrink_list(case):
    x, k = case['x'], case['k']
    if len(x) > len(k):
        yield {'x': x[1:], 'k': k}
        yield {'x': x[:-1], 'k': k}
    if len(k) >= 3:
        yield {'x': x, 'k': k[1:-1]}


S_LIST = Stream(
    name='list', budget={'quick': 800, 'thorough': 20000},
    rule=('signals of length window..window+7 (constant, monotone, random with ~22% NaN) filtered with odd lists of non-negative weights of length 1..7 '
          '(zeros inside allowed); observed: the output feature, the returned list, the input feature and positions afterwards; non-trivial = window >= 3 and some NaN or non-constant signal'),
    imports=IMPORTS, case_type='list val * list Q * list val',
    check_def=COMMON + "Definition ok (c : list val * list Q * list val) : bool := let '(x, k, o) := c in same false x k o.",
    generate=gen_list, run_impl=run_list, coq_case=coq_list_case, oracle=oracle_list, shrink=shrink_list, finding_key=finding_list,
    nontrivial=lambda c, o: len(c['k']) >= 3 and len(set(map(str, c['x']))) > 1,
    klass=lambda c, o: 'k=%d,nan=%s' % (len(c['k']), any(v is None for v in c['x'])))


# ------------------------------------------------------------------ stream kernel: Kernel objects

KERNELS = ['UniformKernel', 'TriangularKernel', 'GaussianKernel', 'ExponentialKernel', 'EpanechnikovKernel', 'DiracKernel', 'CubicKernel', 'SphericKernel']      # (the last two have their width for support: width 1 is the smallest window)


def gen_kernel(rng, n, tier):
    out = []
    for _ in range(n):
        name = rng.choice(KERNELS)
        size = rng.choice([1, 1.5, 2, 2.5, 3, 4, 5, 6])
        boundary = rng.random() < 0.5
        supp = {'UniformKernel': 2 * size, 'TriangularKernel': 1.5 * size, 'GaussianKernel': 3 * size, 'ExponentialKernel': 3 * size, 'EpanechnikovKernel': 1.5 * size, 'DiracKernel': 1, 'CubicKernel': size, 'SphericKernel': size}[name]
        N = 3 if name == 'DiracKernel' else 2 * int(supp) + 1
        m = rng.randint(N, N + 6)
        xs = [(None if rng.random() < 0.1 else float(rng.choice([0, 1, 2, -3, 7, 0.5, 2.25, 10]))) for _ in range(m)]
        out.append({'kernel': name, 'size': size, 'boundary': boundary, 'x': xs, 'default': rng.random() < 0.5,
                    'other': rng.choice([None, None, 'GaussianKernel', 'TriangularKernel', 'UniformKernel'])})
    return out


def mkkernel(case):
    import tracklib.core.kernel as K
    k = K.DiracKernel() if case['kernel'] == 'DiracKernel' else getattr(K, case['kernel'])(case['size'])
    if case['boundary'] or not case.get('default'):
        k.setFilterBoundary(case['boundary'])     # 'default': a kernel that is never configured keeps the documented default (boundary values returned unchanged)
    if case.get('other') is not None:             # another kernel object configured the other way in between: the setting belongs to the kernel it was made on
        o = getattr(K, case['other'])(2)
        o.setFilterBoundary(not case['boundary'])
    return k


def run_kernel(case):
    from tracklib.core.operators import Operator
    k = mkkernel(case)
    res = {}
    if case['kernel'] != 'DiracKernel':
        w = [float(v) for v in k.toSlidingWindow()]
        m = int(k.support)
        res['window'] = w
        res['samples'] = [float(k.evaluate(m - i)) for i in range(2 * m + 1)]
        res['m'] = m
    else:
        res['window'] = [0.0, 1.0, 0.0]
    xs = [nan if v is None else float(v) for v in case['x']]
    tr = mktrack(list(range(len(xs))))
    tr.createAnalyticalFeature('a', list(xs))
    tr.operate(Operator.FILTER, 'a', mkkernel(case), 'b')
    res['out'] = enc(tr['b'])
    return res


def coq_kernel(case, obs):
    if 'exc' in obs:
        return None
    samples = obs.get('samples', [0.0, 1.0, 0.0])
    m = obs.get('m', 1)
    return '(%s, %d%%nat, %s, %s, %s, %s)' % (coq_list(q(v) for v in samples), m, coq_list(q(v) for v in obs['window']), coq_bool(case['boundary']),
                                          coq_list(optq(v) for v in case['x']), coq_list(optq(v) for v in obs['out']))


def oracle_kernel(case, obs):
    if 'exc' in obs:
        return '%s(%r): FILTER / toSlidingWindow raised %s' % (case['kernel'], case['size'], obs['exc'])
    w = obs['window']
    if len(w) % 2 != 1:
        return 'sliding window of %s(%r) has even length %d' % (case['kernel'], case['size'], len(w))
    if abs(sum(w) - 1) > 1e-9:
        return 'sliding window of %s(%r) sums to %r' % (case['kernel'], case['size'], sum(w))
    if any(abs(a - b) > 1e-12 for a, b in zip(w, reversed(w))):
        return 'sliding window of %s(%r) is not symmetric: %r' % (case['kernel'], case['size'], w)
    if any(v < 0 for v in w):
        return 'sliding window of %s(%r) has a negative weight' % (case['kernel'], case['size'])
    return check_out(case['x'], w, case['boundary'], obs['out'], 'FILTER with %s(%r)' % (case['kernel'], case['size']))


S_KERNEL = Stream(
    name='kernel', budget={'quick': 300, 'thorough': 6000},
    rule=('Uniform / Triangular / Gaussian / Exponential / Epanechnikov / Dirac kernel objects with sizes 1..6, both filterBoundary settings, signals of length window..window+6 with ~10% NaN; '
          'observed: Kernel.toSlidingWindow() (compared with the model window built from the sampled kernel values) and the filtered feature'),
    imports=IMPORTS, case_type='list Q * nat * list Q * bool * list val * list val',
    check_def=COMMON + '''Fixpoint lclose (a b : list Q) : bool := match a, b with [], [] => true | x :: r, y :: s => Qle_bool (Qabs (x - y)) (1 # 1000000000000) && lclose r s | _, _ => false end.
Definition ok (c : list Q * nat * list Q * bool * list val * list val) : bool :=
  let '(samples, m, w, b, x, o) := c in
  lclose (sliding_window (fun z => nth (Z.to_nat (Z.of_nat m - z)) samples 0) m) w && same b x w o.''',
    generate=gen_kernel, run_impl=run_kernel, coq_case=coq_kernel, oracle=oracle_kernel,
    nontrivial=lambda c, o: c['kernel'] != 'DiracKernel', klass=lambda c, o: '%s,b=%s' % (c['kernel'], c['boundary']))


# ------------------------------------------------------------------ stream seq: filter_seq on coordinates (frame)

def gen_seq(rng, n, tier):
    out = []
    for _ in range(n):
        k = [rng.choice([1, 2, 3]) for _ in range(rng.choice([3, 3, 5]))]
        m = rng.randint(len(k), len(k) + 5)
        coords = [[float(rng.choice([0, 1, 2, -3, 7, 0.5, 2.25])) for _ in range(m)] for _ in range(3)]
        c = {'k': k, 'xyz': coords, 'dim': rng.choice([['x', 'y', 'z'], ['x', 'y'], ['x'], ['z']])}
        if rng.random() < 0.4:                      # the dimensions may also name analytical features: one is filtered along with the coordinates
            c['fname'] = rng.choice(['xy', 'yz', 'xyz', 'speed', 'dxy', 'zx', 'a'])
            c['fvals'] = [float(rng.choice([0, 1, 2, -3, 7, 0.5, 2.25])) for _ in range(m)]
            if rng.random() < 0.3:
                c['dim'] = []
        out.append(c)
    return out


def run_seq(case):
    import sys, tracklib.algo.filtering
    flt = sys.modules['tracklib.algo.filtering']
    tr = mktrack(*case['xyz'])
    t0 = [str(o.timestamp) for o in tr]
    dim = list(case['dim'])
    if case.get('fname'):
        tr.createAnalyticalFeature(case['fname'], list(case['fvals']))
        dim.append(case['fname'])
    out = flt.filter_seq(tr, [float(v) for v in case['k']], dim)
    res = {'x': enc(out.getX()), 'y': enc(out.getY()), 'z': enc(out.getZ()), 'same_t': t0 == [str(o.timestamp) for o in out], 'n': out.size()}
    if case.get('fname'):
        res['f'] = enc(out.getAnalyticalFeature(case['fname']))
    return res


def coq_seq(case, obs):
    if 'exc' in obs:
        return None
    rows = []
    for nm, c in zip('xyz', case['xyz']):
        filt = nm in case['dim']
        rows.append('(%s, %s, %s)' % (coq_bool(filt), coq_list(optq(v) for v in c), coq_list(optq(v) for v in obs[nm])))
    if case.get('fname'):
        rows.append('(true, %s, %s)' % (coq_list(optq(v) for v in case['fvals']), coq_list(optq(v) for v in obs['f'])))
    return '(%s, %s)' % (coq_list(q(v) for v in case['k']), coq_list(rows))


def oracle_seq(case, obs):
    if 'exc' in obs:
        return 'filter_seq raised %s' % obs['exc']
    if not obs['same_t'] or obs['n'] != len(case['xyz'][0]):
        return 'filter_seq changed the timestamps or the number of observations'
    for nm, c in zip('xyz', case['xyz']):
        if nm in case['dim']:
            r = check_out(c, case['k'], False, obs[nm], 'filter_seq coordinate ' + nm)
            if r:
                return r
        elif obs[nm] != c:
            return 'filter_seq on %r changed coordinate %s' % (case['dim'], nm)
    if case.get('fname'):
        r = check_out(case['fvals'], case['k'], False, obs['f'], 'filter_seq feature ' + case['fname'])
        if r:
            return r
    return None


S_SEQ = Stream(
    name='seq', budget={'quick': 200, 'thorough': 4000},
    rule='filter_seq with an odd list kernel on subsets of the coordinates x, y, z; observed: the three coordinate columns, timestamps and size; non-trivial = always',
    imports=IMPORTS, case_type='list Q * list (bool * list val * list val)',
    check_def=COMMON + '''Fixpoint veq (a b : list val) : bool := match a, b with [], [] => true | Some x :: r, Some y :: s => Qeq_bool x y && veq r s | None :: r, None :: s => veq r s | _, _ => false end.
Definition ok (c : list Q * list (bool * list val * list val)) : bool :=
  let '(k, rows) := c in forallb (fun r : bool * list val * list val => let '(filt, x, o) := r in if filt then same false x k o else veq x o) rows.''',
    generate=gen_seq, run_impl=run_seq, coq_case=coq_seq, oracle=oracle_seq, klass=lambda c, o: ''.join(c['dim']))

STREAMS = [S_LIST, S_KERNEL, S_SEQ]
