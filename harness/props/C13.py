"""C13 - tracks and networks written to file are read back unchanged (partial: byte-level contract)"""
import os, tempfile, itertools, math, shutil
from fractions import Fraction as F
from core import Stream, q, coq_list

PROP = 'C13'
THEOREM_FILE = 'Props/C13.v'
NOTES = ['partial: the theorems say the text protocol is consistent (fixed-precision printing followed by parsing recovers the value to half a unit of the last printed digit, timestamp text '
         'round trip, column order); that CPython\'s float() returns the nearest double of the printed decimal and that str(float) round-trips are Python\'s guarantees (trusted)',
         'separators that cannot occur inside a printed field (, ; | tab); special-column ids are exactly 0..k-1; coordinates different from the reader\'s no-data value; years 1970..9999',
         'files are written to a scratch directory under the system temp directory and removed']
SCRATCH = None


def scratch():
    global SCRATCH
    if SCRATCH is None or not os.path.isdir(SCRATCH):
        SCRATCH = tempfile.mkdtemp(prefix='tlverif_io_')
    return SCRATCH


def rand_time(rng):
    import datetime
    base = datetime.datetime(1970, 1, 1)
    d = rng.choice([0, 58, 59, 364, 365, 789, 18262, 18627, rng.randint(0, 47000)])          # 28/29 Feb, year ends, 2020 ...
    s = rng.choice([0, 86399, 43200, rng.randint(0, 86399)])
    return d * 86400 + s


def rand_xyz(rng, srid):
    if srid == 'GEO':
        return [rng.choice([rng.uniform(-180, 180), 2.123456789012, -179.9999999999, 0.0]), rng.choice([rng.uniform(-89.9, 89.9), 48.856613, 0.0]), rng.choice([0.0, rng.uniform(-100, 9000)])]
    return [rng.choice([rng.uniform(-1e5, 1e5), rng.randint(-10 ** 6, 10 ** 6) / 1000.0, rng.randint(-4000, 4000) / 16.0, 0.0005, 2.5e-4, -0.0004]),
            rng.uniform(-500, 500), rng.choice([0.0, rng.uniform(-10, 3000)])]


def mk_track(case):
    from tracklib.core import ObsTime, ENUCoords, GeoCoords, ECEFCoords, Obs, Track
    mk = {'ENU': ENUCoords, 'GEO': GeoCoords, 'ECEF': ECEFCoords}[case['srid']]
    return Track([Obs(mk(x, y, z), ObsTime.readUnixTime(t)) for (x, y, z), t in zip(case['pts'], case['T'])])


# ------------------------------------------------------------------ CSV

PERMS = {4: list(itertools.permutations(range(4))), 3: list(itertools.permutations(range(3))), 2: [(0, 1), (1, 0)]}


def gen_csv(rng, n, tier, h=0):
    out = []
    for _ in range(n):
        srid = rng.choice(['ENU', 'ENU', 'GEO', 'ECEF'])
        k = rng.randint(1, 5)
        kind = rng.choice(['ENUT', 'ENU', 'ENT', 'EN'])
        if kind == 'ENUT':
            e, nn, u, t = rng.choice(PERMS[4])
        elif kind == 'ENU':
            e, nn, u = rng.choice(PERMS[3]); t = -1
        elif kind == 'ENT':
            e, nn, t = rng.choice(PERMS[3]); u = -1
        else:
            e, nn = rng.choice(PERMS[2]); u = -1; t = -1
        out.append({'srid': srid, 'pts': [rand_xyz(rng, srid) for _ in range(k)], 'T': [rand_time(rng) for _ in range(k)], 'ids': [e, nn, u, t], 'sep': rng.choice([',', ';', '|', '\t', ',', ';', 'c', 'b', 's']), 'h': h if h == 0 else rng.choice([1, 1, 2, 3, 3]),
                    'prior': rng.choice([None, None, None, 'export', 'text'])})
        if t >= 0 and rng.random() < 0.15:
            # another timestamp layout, selected for printing and for reading as the API allows (two-digit years are those of 2000..2099; ISO-like order); oracle only
            out[-1]['tfmt'] = rng.choice(['2D/2M/2Y 2h:2m:2s', '2D/2M/2Y 2h:2m:2s', '4Y-2M-2D 2h:2m:2s', '2h:2m:2s 2D.2M.4Y'])
            out[-1]['viafmt'] = rng.random() < 0.5
            if '2Y' in out[-1]['tfmt']:
                out[-1]['T'] = [T if T >= 946684800 else T + 946684800 + 86400 * 365 * 60 for T in out[-1]['T']]
    return out


def run_csv(case):
    from tracklib.core import ObsTime
    if case.get('tfmt'):
        pf, rf = ObsTime.getPrintFormat(), ObsTime.getReadFormat()
        ObsTime.setPrintFormat(case['tfmt'])
        if not case.get('viafmt'):                   # (viafmt: the layout is named to the reader through the time_fmt entry of a format dictionary instead)
            ObsTime.setReadFormat(case['tfmt'])
        try:
            return run_csv_(case)
        finally:
            ObsTime.setPrintFormat(pf); ObsTime.setReadFormat(rf)
    return run_csv_(case)


def run_csv_(case):
    from tracklib.core import ObsTime
    from tracklib.io.track_writer import TrackWriter
    from tracklib.io.track_reader import TrackReader
    tr = mk_track(case)
    e, nn, u, t = case['ids']
    path = os.path.join(scratch(), 'w.csv')
    if case.get('prior'):                         # the path already holds an earlier export (of another track, or some other file): writing replaces it
        if case['prior'] == 'export':
            other = dict(case, pts=[[c + 1 for c in pt] for pt in case['pts']][::-1] + [case['pts'][0]], T=([x + 5 for x in case['T']] + [case['T'][0]]))
            TrackWriter.writeToFile(mk_track(other), path, e, nn, u, t, case['sep'], case['h'])
        else:
            open(path, 'w').write('1;2;3;01/01/2000 00:00:00\n' * 3)
    TrackWriter.writeToFile(tr, path, e, nn, u, t, case['sep'], case['h'])
    text = open(path).read()
    if case.get('tfmt') and case.get('viafmt'):
        from tracklib.io.track_format import TrackFormat
        back = TrackReader.readFromFile(path, TrackFormat({'ext': 'CSV', 'id_E': e, 'id_N': nn, 'id_U': u, 'id_T': t, 'separator': case['sep'], 'header': case['h'], 'srid': case['srid'], 'time_fmt': case['tfmt']}))
    else:
        back = TrackReader.readFromCsv(path, e, nn, u, t, case['sep'], h=case['h'], srid=case['srid'])
    os.remove(path)
    stamps = [[o.timestamp.day, o.timestamp.month, o.timestamp.year, o.timestamp.hour, o.timestamp.min, o.timestamp.sec] for o in tr]
    return {'text': text, 'stamps': stamps, 'back_stamps': [[o.timestamp.day, o.timestamp.month, o.timestamp.year, o.timestamp.hour, o.timestamp.min, o.timestamp.sec] for o in back],
            'back': [[o.position.getX(), o.position.getY(), o.position.getZ(), o.timestamp.toAbsTime()] for o in back]}


def coq_csv(case, obs):
    if 'exc' in obs or case.get('tfmt'):
        return None
    e, nn, u, t = case['ids']
    lines = [l for l in obs['text'].split('\n')[:-1] if not l.startswith('#')]             # header / comment lines are skipped by the reader
    if len(lines) != len(case['pts']) or len(obs['back']) != len(lines):
        return None
    (w, p) = (20, 10) if case['srid'] == 'GEO' else (10, 3)
    st = lambda s: '(mk %d%%nat %d%%nat %d%%nat %d%%nat %d%%nat %d%%nat)' % tuple(s)
    rows = []
    for (x, y, z), s1, ln, b, s2 in zip(case['pts'], obs['stamps'], lines, obs['back'], obs['back_stamps']):
        rows.append('(%s, %s, %s, %s, "%s", (%s, %s, %s, %s))' % (q(x), q(y), q(z), st(s1), ln.replace('"', '""'), q(b[0]), q(b[1]), q(b[2]), st(s2)))
    sep = '"%s"%%char' % case['sep'] if case['sep'] != '\t' else '(ascii_of_nat 9)'
    return '(%d%%nat, "%s", (%d%%nat, %d%%nat, %d%%nat, %d%%nat, %s, %s, %s, %s))' % (case['h'], obs['text'].replace('"', '""'), w, p, e, nn, '(Some %d%%nat)' % u if u >= 0 else 'None', '(Some %d%%nat)' % t if t >= 0 else 'None', sep, coq_list(rows))


def oracle_csv(case, obs):
    if 'exc' in obs:
        return 'CSV write / read raised %s (ids %r, separator %r, srid %s)' % (obs['exc'], case['ids'], case['sep'], case['srid'])
    n = len(case['pts'])
    e, nn, u, t = case['ids']
    if len(obs['back']) != n:
        return 'wrote %d observations (h=%r), read back %d' % (n, case['h'], len(obs['back']))
    tol = 5.1e-11 if case['srid'] == 'GEO' else 5.1e-4
    for i, ((x, y, z), T, b) in enumerate(zip(case['pts'], case['T'], obs['back'])):
        if abs(b[0] - x) > tol or abs(b[1] - y) > tol or (u >= 0 and abs(b[2] - z) > tol):
            return 'observation %d written as (%r, %r, %r) is read back as (%r, %r, %r)' % (i, x, y, z, b[0], b[1], b[2])
        if t >= 0 and b[3] != T:
            return 'observation %d written at %r s is read back at %r s' % (i, T, b[3])
    return None


def finding_csv(case, obs, why):
    return 'csv-header-flag' if case['h'] >= 1 else None


CSV_CHECK = '''Definition near (o : option Q) (b : Q) : bool :=           (* float(text) is the binary64 nearest to the decimal value of the text *)
  match o with Some v => Qle_bool (Qabs (v - b) * (10 ^ 15 # 1)) (Qabs v) | None => false end.
Definition stamp_eqb (a b : stamp) : bool :=
  Nat.eqb (day a) (day b) && Nat.eqb (month a) (month b) && Nat.eqb (year a) (year b) && Nat.eqb (hour a) (hour b) && Nat.eqb (minute a) (minute b) && Nat.eqb (sec a) (sec b).
Fixpoint all_eq (a b : list string) : bool := match a, b with [], [] => true | x :: a', y :: b' => (if string_dec x y then true else false) && all_eq a' b' | _, _ => false end.
Definition ok (c : nat * string * (nat * nat * nat * nat * option nat * option nat * ascii * list (Q * Q * Q * stamp * string * (Q * Q * Q * stamp)))) : bool :=
  let '(h, filetext, (w, p, idE, idN, idU, idT, sep, rows)) := c in
  (* the reader's line loop on the file the implementation wrote: exactly the observation lines, in order *)
  all_eq (read_file h filetext) (map (fun '(_, _, _, _, text, _) => text) rows) &&
  forallb (fun '(x, y, z, t, text, (bx, by_, bz, bt)) =>
    (if string_dec (line w p idE idN idU idT (String sep "") x y z t) text then true else false)        (* writer *)
    && (let fs := read_fields sep text in                                                                (* reader, on the text the implementation wrote *)
        near (parse_fixed (nth idE fs "")) bx && near (parse_fixed (nth idN fs "")) by_
        && (match idU with Some u => near (parse_fixed (nth u fs "")) bz | None => true end)
        && (match idT with Some k => stamp_eqb (read_time (nth k fs "")) bt | None => true end))) rows.'''

S_CSV = Stream(
    name='csv', budget={'quick': 250, 'thorough': 6000},
    rule=('tracks of 1..5 observations in ENU / Geo / ECEF with negative, large, many-decimal values and exact ties at the last printed decimal, timestamps at midnight / month / year ends and 29 Feb; '
          'every permutation of id_E id_N id_U id_T and every presence pattern, separators , ; | tab, h=0; observed: the file text (compared byte for byte with the model\'s writer) and '
          'the track read back with the same parameters; non-trivial = at least 2 observations'),
    imports='From Coq Require Import List String Ascii ZArith QArith Qabs Bool.\nImport ListNotations.\nFrom TL Require Import Model.TextFmt Proofs.Columns Proofs.TimeText Model.CsvText.\nClose Scope Z_scope.\nOpen Scope string_scope.',
    case_type='nat * string * (nat * nat * nat * nat * option nat * option nat * ascii * list (Q * Q * Q * stamp * string * (Q * Q * Q * stamp)))', check_def=CSV_CHECK,
    generate=gen_csv, run_impl=run_csv, coq_case=coq_csv, oracle=oracle_csv, finding_key=finding_csv,
    nontrivial=lambda c, o: len(c['pts']) >= 2, klass=lambda c, o: '%s,ids=%s' % (c['srid'], ''.join('-' if i < 0 else str(i) for i in c['ids'])))

S_CSVH = Stream(
    name='csv_header', budget={'quick': 100, 'thorough': 2000},
    rule='the same with the header option: written with h = 1, 2 or 3 (the writer puts three comment lines: srid / reference point / column names) and read with the same h (the reader skips h lines, then every comment line); the data lines are compared with the model as in the csv stream',
    imports=S_CSV.imports, case_type=S_CSV.case_type, check_def=CSV_CHECK,
    generate=lambda rng, n, tier: gen_csv(rng, n, tier, h=1), run_impl=run_csv, coq_case=coq_csv, oracle=oracle_csv, finding_key=finding_csv,
    klass=lambda c, o: 'h=%d,%s' % (c['h'], c['srid']))


# ------------------------------------------------------------------ GPX

def gen_gpx(rng, n, tier):
    out = []
    for _ in range(n):
        k = rng.randint(1, 5)
        srid = rng.choice(['GEO', 'GEO', 'ENU'])        # a local track (with or without a recorded base) is exported as it is: E / N / U in the lon / lat / ele slots
        out.append({'srid': srid, 'base': (srid == 'ENU' and rng.random() < 0.6), 'pts': [rand_xyz(rng, srid) for _ in range(k)], 'T': [rand_time(rng) for _ in range(k)], 'ntracks': rng.choice([1, 1, 2]),
                    'many': rng.random() < 0.3,           # one file per track (oneFile=False) into a directory
                    'af': rng.random() < 0.25})
    return out


def run_gpx(case):
    from tracklib.core import ObsTime, TrackCollection
    from tracklib.io.track_writer import TrackWriter
    from tracklib.io.track_reader import TrackReader
    trs = [mk_track(case) for _ in range(case['ntracks'])]
    for i, t in enumerate(trs):
        t.tid = 'k%d' % i
        if case.get('base'):
            from tracklib.core import GeoCoords
            t.base = GeoCoords(2.35, 48.85, 35.0)   # as recorded by an earlier toENUCoords(base)
        if case.get('af'):                        # analytical features exported in the <extensions> block of each point, under names close to the GPX tags
            t.createAnalyticalFeature('elevation', [1000.5 + k for k in range(t.size())])
            t.createAnalyticalFeature('timer', [7.25] * t.size())
            t.createAnalyticalFeature('speed', [3.5] * t.size())
    fmt0 = (ObsTime.getPrintFormat(), ObsTime.getReadFormat())
    if case.get('many'):
        d = os.path.join(scratch(), 'many'); shutil.rmtree(d, ignore_errors=True); os.makedirs(d)
        TrackWriter.writeToGpx(TrackCollection(trs), d, af=bool(case.get('af')), oneFile=False)
        paths = [os.path.join(d, 'k%d.gpx' % i) for i in range(len(trs))]
    else:
        path = os.path.join(scratch(), 'w.gpx')
        TrackWriter.writeToGpx(TrackCollection(trs), path, af=bool(case.get('af')))
        paths = [path]
    fmt1 = (ObsTime.getPrintFormat(), ObsTime.getReadFormat())
    text = None if case.get('many') else open(paths[0]).read()
    stamps = [[o.timestamp.day, o.timestamp.month, o.timestamp.year, o.timestamp.hour, o.timestamp.min, o.timestamp.sec] for o in trs[0]]
    # a CSV round trip in the same process, after the GPX export (the writers share the class-level time formats)
    cpath = os.path.join(scratch(), 'after.csv')
    TrackWriter.writeToFile(trs[0], cpath, 0, 1, 2, 3, ';', 0)
    cback = TrackReader.readFromCsv(cpath, 0, 1, 2, 3, ';', h=0, srid=case.get('srid', 'GEO'))
    os.remove(cpath)
    save = ObsTime.getReadFormat()
    ObsTime.setReadFormat("4Y-2M-2DT2h:2m:2sZ")
    back = []; backf = []
    try:
        for pth in paths:
            b = TrackReader.readFromGpx(pth, srid=case.get('srid', 'GEO'))
            back += [[[o.position.getX(), o.position.getY(), o.position.getZ(), o.timestamp.toAbsTime()] for o in b.getTrack(i)] for i in range(b.size())]
            backf += [[[o.timestamp.day, o.timestamp.month, o.timestamp.year, o.timestamp.hour, o.timestamp.min, o.timestamp.sec] for o in b.getTrack(i)] for i in range(b.size())]
            os.remove(pth)
    finally:
        ObsTime.setReadFormat(save)
    return {'back': back, 'fmt0': list(fmt0), 'fmt1': list(fmt1), 'csv_after': [o.timestamp.toAbsTime() for o in cback], 'text': text, 'stamps': stamps, 'backf': backf}


def coq_gpx(case, obs):
    if 'exc' in obs or obs.get('text') is None or case.get('af'):
        return None                               # one file per track, or the extensions block: oracle only
    lines = obs['text'].split('\n')
    if '    <trk>' not in lines:
        return None
    hdr = lines[:lines.index('    <trk>')]
    st = lambda f: '(mk %d%%nat %d%%nat %d%%nat %d%%nat %d%%nat %d%%nat)' % tuple(f)
    S = lambda t: '"%s"' % t.replace('"', '""')
    pts = coq_list('(%s, %s, %s, %s)' % (q(y), q(x), q(z), st(f)) for (x, y, z), f in zip(case['pts'], obs['stamps']))
    ts = coq_list('("k%d", %s)' % (i, pts) for i in range(case['ntracks']))
    back = coq_list(coq_list('(%s, %s, %s, %s)' % (q(b[1]), q(b[0]), q(b[2]), st(f)) for b, f in zip(tb, tf)) for tb, tf in zip(obs['back'], obs['backf']))
    return '(%s, %s, %s, %s, %s)' % (coq_list(S(l) for l in hdr), ts, S(obs['text']), back, 'true' if case.get('srid', 'GEO') == 'GEO' else 'false')


def oracle_gpx(case, obs):
    if 'exc' in obs:
        return 'GPX write / read raised %s %s' % (obs['exc'], obs.get('msg', ''))
    if obs['fmt1'] != obs['fmt0']:
        return 'writeToGpx(oneFile=%r) left the class-level time formats at %r (they were %r): later writes and reads in the same process no longer match' % (not case.get('many'), obs['fmt1'], obs['fmt0'])
    if obs['csv_after'] != list(case['T']):
        return 'a CSV round trip after the GPX export reads the timestamps %r back as %r' % (case['T'], obs['csv_after'])
    if len(obs['back']) != case['ntracks']:
        return 'wrote %d tracks, read back %d' % (case['ntracks'], len(obs['back']))
    for tr in obs['back']:
        if len(tr) != len(case['pts']):
            return 'wrote %d observations, read back %d' % (len(case['pts']), len(tr))
        for i, ((x, y, z), T, b) in enumerate(zip(case['pts'], case['T'], tr)):
            if abs(b[0] - x) > 1e-8 or abs(b[1] - y) > 1e-8 or abs(b[2] - z) > 1e-3 or b[3] != T:
                return 'observation %d written as (%r, %r, %r) at %r is read back as %r' % (i, x, y, z, T, b)
    return None


def finding_gpx(case, obs, why):
    # open finding gpx-enu-height: read back as local (ENU) coordinates a GPX file loses its third coordinate (the reader stores it in the attribute of
    # geographic positions); it explains a failure only when that is all that differs: same counts, same first two coordinates, same instants, heights read as 0
    if case.get('srid') != 'ENU' or 'exc' in obs or obs.get('fmt1') != obs.get('fmt0') or obs.get('csv_after') != list(case['T']):
        return None
    if len(obs['back']) != case['ntracks']:
        return None
    for tr in obs['back']:
        if len(tr) != len(case['pts']):
            return None
        for (x, y, z), T, b in zip(case['pts'], case['T'], tr):
            if abs(b[0] - x) > 1e-8 or abs(b[1] - y) > 1e-8 or b[3] != T or b[2] != 0:
                return None
    return 'gpx-enu-height'


S_GPX = Stream(
    name='gpx', budget={'quick': 150, 'thorough': 4000},
    rule='geographic tracks (1..5 observations, 1..2 tracks) written by writeToGpx into one file or one file per track (30 %) and read by readFromGpx with the matching read format, followed by a CSV round trip in the same process; for the one-file form the file text is compared byte for byte with the model\'s writer (header lines taken from the file, '
         'coordinates printed by the model\'s "{:3.8f}", times by its GPX time format) and the points read back (values and time fields) with the model of the line-based reader on that text; '
         'oracle: 1e-8 degree, 1 mm, same second; class-level time formats restored',
    imports='From Coq Require Import List Ascii String Bool QArith Qabs.\nImport ListNotations.\nFrom TL Require Import Model.TextFmt Model.CsvText Model.GpxText Proofs.FixedText Proofs.TimeText Proofs.GpxText.\nOpen Scope Q_scope.\nOpen Scope string_scope.',
    case_type='list string * list (string * list (Q * Q * Q * stamp)) * string * list (list (Q * Q * Q * stamp)) * bool',
    check_def='''Definition hdr_okb (l : string) : bool := negb (has "<trk>" l) && negb (has "</trk>" l) && str_all (fun c => negb (Ascii.eqb c nl)) l.
Definition mkt (t : string * list (Q * Q * Q * stamp)) : trk := {| tname := fst t; tpts := map (fun '(la, lo, el, s) => gpx_point la lo el s) (snd t) |}.
Definition near (tok : string) (v : Q) : bool := match parse_fixed tok with Some w => Qle_bool (Qabs (w - v)) ((1 # 1000000000000) * (1 + Qabs v)) | None => false end.   (* the float nearest to the printed decimal *)
Definition stamp_eqb (a b : stamp) : bool := Nat.eqb (day a) (day b) && Nat.eqb (month a) (month b) && Nat.eqb (year a) (year b) && Nat.eqb (hour a) (hour b) && Nat.eqb (minute a) (minute b) && Nat.eqb (TimeText.sec a) (TimeText.sec b).
(* geo = false: the file is read back as local coordinates, where the code under test does not keep the height (open finding gpx-enu-height): the height is then not compared *)
Definition pt_match (geo : bool) (p : pt) (o : Q * Q * Q * stamp) : bool := let '(la, lo, el, s) := o in near (lat p) la && near (lon p) lo && (negb geo || near (ele p) el) && stamp_eqb (read_gpx_time (list_ascii_of_string (tim p))) s.
Fixpoint all2 {A B} (f : A -> B -> bool) (a : list A) (b : list B) : bool := match a, b with [], [] => true | x :: r, y :: s => f x y && all2 f r s | _, _ => false end.
Definition ok (c : list string * list (string * list (Q * Q * Q * stamp)) * string * list (list (Q * Q * Q * stamp)) * bool) : bool :=
  let '(hdr, ts, text, back, geo) := c in
  forallb hdr_okb hdr && String.eqb (write_gpx hdr (map mkt ts)) text &&
  match read_gpx text with Some r => all2 (all2 (pt_match geo)) r back | None => false end.''',
    generate=gen_gpx, run_impl=run_gpx, coq_case=coq_gpx, oracle=oracle_gpx, finding_key=finding_gpx,
    nontrivial=lambda c, o: len(c['pts']) >= 2, klass=lambda c, o: 'tracks=%d' % c['ntracks'])


# ------------------------------------------------------------------ network CSV and WKT

def gen_net(rng, n, tier):
    out = []
    for _ in range(n):
        nn = rng.randint(2, 6)
        ne = rng.randint(1, 8)
        pos = {i: [rng.choice([rng.uniform(-1000, 1000), float(rng.randint(-50, 50)), 1e-5 * rng.randint(1, 9), 123456.789]), rng.uniform(-1000, 1000)] for i in range(nn)}
        edges = []
        for k in range(ne):
            s, t = rng.randrange(nn), rng.randrange(nn)
            mids = [[rng.uniform(-1000, 1000), rng.uniform(-1000, 1000)] for _ in range(rng.randint(0, 3))]
            edges.append({'id': 'e%d' % k, 's': 'n%d' % s, 't': 'n%d' % t, 'o': rng.choice([-1, 0, 1]), 'geom': [pos[s]] + mids + [pos[t]]})
        out.append({'edges': edges, 'sep': rng.choice([',', ',', ';', '|', '\t']), 'h': rng.choice([1, 1, 0])})       # the separator and header options of the writer
    return out


def run_net(case):
    from tracklib.core import ENUCoords, Obs, Track, Network, Node, Edge
    from tracklib.io.network_writer import NetworkWriter
    from tracklib.io.network_reader import NetworkReader
    from tracklib.io.network_format import NetworkFormat
    from tracklib.io.track_reader import TrackReader
    net = Network()
    for e in case['edges']:
        ed = Edge(e['id'], Track([Obs(ENUCoords(x, y, 0)) for x, y in e['geom']]))
        ed.orientation = e['o']
        net.addEdge(ed, Node(e['s'], ENUCoords(e['geom'][0][0], e['geom'][0][1], 0)), Node(e['t'], ENUCoords(e['geom'][-1][0], e['geom'][-1][1], 0)))
    path = os.path.join(scratch(), 'net.csv')
    sep, h = case.get('sep', ','), case.get('h', 1)
    NetworkWriter.writeToCsv(net, path, separator=sep, h=h)
    fmt = NetworkFormat()
    fmt.createFromDict({'name': 'V', 'pos_edge_id': 0, 'pos_source': 1, 'pos_target': 2, 'pos_wkt': 4, 'pos_weight': -1, 'pos_direction': 3, 'separator': sep, 'header': h, 'doublequote': True, 'encoding': 'utf-8', 'srid': 'ENU'})
    text = open(path).read()
    back = NetworkReader.readFromFile(path, fmt, verbose=False)
    os.remove(path)
    res = []
    for k in back.EDGES:
        ed = back.EDGES[k]
        res.append({'id': str(ed.id), 's': str(ed.source.id), 't': str(ed.target.id), 'o': int(ed.orientation), 'geom': [[o.position.getX(), o.position.getY()] for o in ed.geom]})
    wkt = []
    for e in case['edges']:
        tr = Track([Obs(ENUCoords(x, y, 0)) for x, y in e['geom']])
        p = TrackReader.parseWkt(tr.toWKT())
        wkt.append([[o.position.getX(), o.position.getY()] for o in p])
    return {'edges': res, 'nodes': sorted(str(k) for k in back.NODES), 'wkt': wkt, 'text': text}


def _erec(e, o=None):
    return '{| e_id := "%s"; e_src := "%s"; e_tgt := "%s"; e_dir := "%d"; e_pts := %s |}' % (e['id'], e['s'], e['t'], e['o'], coq_list('("%s", "%s")' % (repr(float(x)), repr(float(y))) for x, y in e['geom']))


def coq_net(case, obs):
    if 'exc' in obs:
        return None
    sep = case.get('sep', ',')
    sepc = '"%s"%%char' % sep if sep != '\t' else '(ascii_of_nat 9)'
    return '(%s, %s, %s, "%s", %s)' % ('true' if case.get('h', 1) else 'false', sepc, coq_list(_erec(e) for e in case['edges']), obs['text'].replace('"', '""'),
                                    coq_list(_erec(e) for e in obs['edges']))


def oracle_net(case, obs):
    if 'exc' in obs:
        return 'network CSV / WKT round trip raised %s' % obs['exc']
    want = {e['id']: e for e in case['edges']}
    got = {e['id']: e for e in obs['edges']}
    if sorted(want) != sorted(got):
        return 'edges written %r, read back %r' % (sorted(want), sorted(got))
    for k, e in want.items():
        g = got[k]
        if (g['s'], g['t'], g['o']) != (e['s'], e['t'], e['o']):
            return 'edge %s written as %s -> %s (orientation %d) is read back as %s -> %s (%d)' % (k, e['s'], e['t'], e['o'], g['s'], g['t'], g['o'])
        if g['geom'] != e['geom']:
            return 'geometry of edge %s written as %r is read back as %r' % (k, e['geom'], g['geom'])
    nodes = sorted({e['s'] for e in case['edges']} | {e['t'] for e in case['edges']})
    if obs['nodes'] != nodes:
        return 'nodes written %r, read back %r' % (nodes, obs['nodes'])
    for e, w in zip(case['edges'], obs['wkt']):
        if w != e['geom']:
            return 'track exported as WKT %r is parsed back as %r' % (e['geom'], w)
    return None


S_NET = Stream(
    name='network', budget={'quick': 150, 'thorough': 4000},
    rule=('networks of 2..6 nodes and 1..8 edges (three orientations, self-loops, parallel edges, geometries of 2..5 vertices with integer, tiny (1e-5) and many-digit coordinates) written by '
          'NetworkWriter.writeToCsv (every separator, with and without header) and read by NetworkReader.readFromFile; the file text is compared byte for byte with the model\'s writer and the edges read back '
          '(identifier, end nodes, orientation, geometry tokens, in file order) with the model of csv.reader + wktLineStringToObs on that text; every edge geometry exported with toWKT and parsed with parseWkt; '
          'oracle: exact equality (str(float) round-trips)'),
    imports='From Coq Require Import List Ascii String Bool.\nImport ListNotations.\nFrom TL Require Import Model.CsvText Model.WktText Model.NetText.\nOpen Scope string_scope.',
    case_type='bool * ascii * list edge_rec * string * list edge_rec',
    check_def='''Fixpoint pts_eqb (a b : list (string * string)) : bool := match a, b with [], [] => true | (x, y) :: r, (u, v) :: s => String.eqb x u && String.eqb y v && pts_eqb r s | _, _ => false end.
Definition edge_eqb (a b : edge_rec) : bool := String.eqb (e_id a) (e_id b) && String.eqb (e_src a) (e_src b) && String.eqb (e_tgt a) (e_tgt b) && String.eqb (e_dir a) (e_dir b) && pts_eqb (e_pts a) (e_pts b).
Fixpoint all_eqb (a : list (option edge_rec)) (b : list edge_rec) : bool := match a, b with [], [] => true | Some x :: r, y :: s => edge_eqb x y && all_eqb r s | _, _ => false end.
Definition ok (c : bool * ascii * list edge_rec * string * list edge_rec) : bool :=
  let '(h, sep, es, text, back) := c in String.eqb (write_net h sep es) text && all_eqb (read_net h sep text) back.''',
    generate=gen_net, run_impl=run_net, coq_case=coq_net, oracle=oracle_net,
    nontrivial=lambda c, o: len(c['edges']) >= 2, klass=lambda c, o: 'edges=%d' % len(c['edges']))


# ------------------------------------------------------------------ number formatting (model tie of "{:W.Pf}")

def gen_fmt(rng, n, tier):
    out = []
    for _ in range(n):
        w, p = rng.choice([(10, 3), (20, 10), (3, 8)])
        k = rng.random()
        if k < 0.3:
            x = rng.uniform(-1e6, 1e6)
        elif k < 0.5:
            x = rng.randint(-10 ** 6, 10 ** 6) / 10 ** rng.randint(0, 6)
        elif k < 0.7:
            x = rng.randint(-2 ** 20, 2 ** 20) / 2 ** rng.randint(0, 14)       # dyadic: exact ties at the printed precision
        elif k < 0.8:
            x = rng.choice([0.0, 0.0005, -0.0005, 0.0015, 0.0025, 1e-9, -1e-9, 123456789.123, 0.9995, -0.9995, 99.9995])
        else:
            x = rng.uniform(-180, 180)
        out.append({'w': w, 'p': p, 'x': x})
    return out


def run_fmt(case):
    s = ('{:%d.%df}' % (case['w'], case['p'])).format(case['x'])
    return {'s': s, 'back': float(s)}


def coq_fmt(case, obs):
    if 'exc' in obs:
        return None
    return '(%d%%nat, %d%%nat, %s, "%s")' % (case['w'], case['p'], q(case['x']), obs['s'])


def oracle_fmt(case, obs):
    if 'exc' in obs:
        return 'format raised %s' % obs['exc']
    if abs(F(obs['back']) - F(case['x'])) > F(1, 2 * 10 ** case['p']) + F(1, 10 ** 15) * abs(F(case['x'])):
        return 'float("%s") = %r is farther than half a unit of the last printed digit from %r' % (obs['s'], obs['back'], case['x'])
    return None


S_FMT = Stream(
    name='format', budget={'quick': 1500, 'thorough': 40000},
    rule='binary64 values (random, decimal, dyadic values that are exact ties at the printed precision, tiny negatives) formatted with {:10.3f} {:20.10f} {:3.8f}; compared byte for byte with the model fmt_fixed on the exact rational value',
    imports='From Coq Require Import List String ZArith QArith.\nImport ListNotations.\nFrom TL Require Import Model.TextFmt.\nOpen Scope string_scope.',
    case_type='nat * nat * Q * string',
    check_def="Definition ok (c : nat * nat * Q * string) : bool := let '(w,p,x,s) := c in if string_dec (fmt_fixed w p x) s then true else false.",
    generate=gen_fmt, run_impl=run_fmt, coq_case=coq_fmt, oracle=oracle_fmt, klass=lambda c, o: '%d.%d' % (c['w'], c['p']))

# ------------------------------------------------------------------ WKT tokens (model tie of toWKT / parseWkt)

def gen_wkt(rng, n, tier):
    out = []
    for _ in range(n):
        k = rng.randint(1, 5)
        val = lambda: rng.choice([rng.uniform(-1000, 1000), float(rng.randint(-50, 50)), 1e-5 * rng.randint(1, 9), -2.5e-7, 1e16, 123456.789, 0.0, -0.0, 1e22])
        out.append({'pts': [[val(), val()] for _ in range(k)], 'srid': rng.choice(['ENU', 'GEO'])})
    return out


def run_wkt(case):
    from tracklib.core import ENUCoords, GeoCoords, Obs, Track
    from tracklib.io.track_reader import TrackReader
    mk = ENUCoords if case['srid'] == 'ENU' else GeoCoords
    tr = Track([Obs(mk(x, y, 0)) for x, y in case['pts']])
    text = tr.toWKT()
    back = TrackReader.parseWkt(text)
    return {'text': text, 'back': [[o.position.getX(), o.position.getY()] for o in back], 'tokens': [[str(x), str(y)] for x, y in case['pts']]}


def coq_wkt(case, obs):
    if 'exc' in obs:
        return None
    return '(%s, "%s")' % (coq_list('("%s", "%s")' % (a, b) for a, b in obs['tokens']), obs['text'])


def oracle_wkt(case, obs):
    if 'exc' in obs:
        return 'WKT export / parse raised %s' % obs['exc']
    if obs['back'] != [[float(x), float(y)] for x, y in case['pts']]:
        return 'track exported as WKT %r is parsed back as %r' % (case['pts'], obs['back'])
    return None


S_WKT = Stream(
    name='wkt', budget={'quick': 400, 'thorough': 10000},
    rule=('tracks of 1..5 points in ENU or geographic coordinates with integer, tiny (scientific notation), huge, negative-zero and many-digit values; the WKT text is compared byte for byte with the '
          'model (tokens = str(value)) and the model parser must return the upper-cased tokens; oracle: exact equality of the parsed coordinates'),
    imports='From Coq Require Import List String Ascii Bool.\nImport ListNotations.\nFrom TL Require Import Model.CsvText Model.WktText.\nOpen Scope string_scope.',
    case_type='list (string * string) * string',
    check_def=("Definition pair_eqb (a b : string * string) : bool := (if string_dec (fst a) (fst b) then true else false) && (if string_dec (snd a) (snd b) then true else false).\n"
               "Fixpoint all2 (a b : list (string * string)) : bool := match a, b with [], [] => true | x :: a', y :: b' => pair_eqb x y && all2 a' b' | _, _ => false end.\n"
               "Definition ok (c : list (string * string) * string) : bool := let '(toks, text) := c in\n"
               "  (if string_dec (to_wkt toks) text then true else false) && match parse_wkt text with Some l => all2 l (map (fun p => (upper (fst p), upper (snd p))) toks) | None => false end."),
    generate=gen_wkt, run_impl=run_wkt, coq_case=coq_wkt, oracle=oracle_wkt, nontrivial=lambda c, o: len(c['pts']) >= 2, klass=lambda c, o: '%s,n=%d' % (c['srid'], len(c['pts'])))

STREAMS = [S_CSV, S_CSVH, S_GPX, S_NET, S_FMT, S_WKT]
