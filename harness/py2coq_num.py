"""Fail-closed translator from pure numeric Python functions (util/geometry.py: cartesienne, projection_droite, proj_segment,
distance_to_segment, proj_polyligne, triangle_area) to Gallina over the generic number structure `Num T` of coq/Model/Num.v.

Read from the SOURCE with `ast` on every run.  The generated functions are then proved equal, for every number structure (so for the
reals of the theorems and for the binary64 instance that is run against the implementation), to the hand-written ones of
coq/Model/Geom.v and coq/Model/SimplifyG.v (coq/GenProofs/GeomGen_eq.v).  Anything outside the subset raises Untranslatable.

Subset: parameters are numbers or fixed-length sequences of numbers (given by the caller of the translator, checked against the
indices used); expressions + - * / unary -, math.sqrt, math.fabs, max / min of two numbers (Python's: the second only if strictly
greater / smaller), comparisons, and / or / & / | on comparisons, the integer literals 0 and 1; statements: assignment, tuple
assignment from a call of another translated function, `x /= e`, a list built by `l = []` and `l.append(e)`, `if c: ... return`
with or without `else`, `return e` / `return e1, e2, ...`.  Every operation is applied in the order Python applies it.
"""
import ast


class Untranslatable(Exception):
    pass


def V(n):
    return 'v_' + n


class NumFn:
    def __init__(self, mod, name, shape):
        self.mod = mod; self.name = name
        f = [n for n in mod.tree.body if isinstance(n, ast.FunctionDef) and n.name == name]
        if len(f) != 1:
            raise Untranslatable('function %s defined %d times' % (name, len(f)))
        self.node = f[0]
        args = [a.arg for a in self.node.args.args]
        if len(args) != len(shape) or self.node.args.vararg or self.node.args.kwarg or self.node.args.defaults:
            raise Untranslatable('%s: parameters %r' % (name, args))
        self.params = list(zip(args, shape))
        self.arity = None
        self.consts = []          # repr of the float literals, in order of appearance (they become parameters c_0, c_1 ... of the generated function)

    # values at translation time: a Coq term (str) for a number / boolean, a list of Coq terms for a sequence
    def E(self, n, env):
        N = 'N'
        if isinstance(n, ast.Constant) and isinstance(n.value, float):
            self.consts.append(repr(n.value))
            return 'c_%d' % (len(self.consts) - 1)
        if isinstance(n, ast.Call) and not n.keywords and isinstance(n.func, ast.Name) and n.func.id == 'abs' and len(n.args) == 1:
            return '(abs N %s)' % self.num(n.args[0], env)
        if isinstance(n, ast.Constant):
            if n.value == 0 and not isinstance(n.value, (bool, float)):
                return '(zero %s)' % N
            if n.value == 1 and not isinstance(n.value, (bool, float)):
                return '(one %s)' % N
            raise Untranslatable('%s: constant %r (line %d)' % (self.name, n.value, n.lineno))
        if isinstance(n, ast.Name):
            if n.id not in env:
                raise Untranslatable('%s: %s is not defined on every path (line %d)' % (self.name, n.id, n.lineno))
            return env[n.id]
        if isinstance(n, ast.Subscript):
            v = self.E(n.value, env)
            if not isinstance(v, list) or not isinstance(n.slice, ast.Constant) or not isinstance(n.slice.value, int) or not (0 <= n.slice.value < len(v)):
                raise Untranslatable('%s: subscript (line %d)' % (self.name, n.lineno))
            return v[n.slice.value]
        if isinstance(n, ast.UnaryOp) and isinstance(n.op, ast.USub):
            return '(opp %s %s)' % (N, self.num(n.operand, env))
        if isinstance(n, ast.BinOp):
            op = {ast.Add: 'add', ast.Sub: 'sub', ast.Mult: 'mul', ast.Div: 'div'}.get(type(n.op))
            if op:
                return '(%s %s %s %s)' % (op, N, self.num(n.left, env), self.num(n.right, env))
            if isinstance(n.op, (ast.BitAnd, ast.BitOr)):
                return '(%s %s %s)' % ('andb' if isinstance(n.op, ast.BitAnd) else 'orb', self.boolean(n.left, env), self.boolean(n.right, env))
            raise Untranslatable('%s: operator %s (line %d)' % (self.name, type(n.op).__name__, n.lineno))
        if isinstance(n, ast.BoolOp):
            f = 'andb' if isinstance(n.op, ast.And) else 'orb'
            t = self.boolean(n.values[0], env)
            for v in n.values[1:]:
                t = '(%s %s %s)' % (f, t, self.boolean(v, env))
            return t
        if isinstance(n, ast.Compare) and len(n.ops) == 1:
            a, b = self.num(n.left, env), self.num(n.comparators[0], env)
            op = n.ops[0]
            if isinstance(op, ast.Eq):
                return '(eqb %s %s %s)' % (N, a, b)
            if isinstance(op, ast.Lt):
                return '(ltb %s %s %s)' % (N, a, b)
            if isinstance(op, ast.LtE):
                return '(leb %s %s %s)' % (N, a, b)
            if isinstance(op, ast.Gt):
                return '(ltb %s %s %s)' % (N, b, a)
            if isinstance(op, ast.GtE):
                return '(leb %s %s %s)' % (N, b, a)
            raise Untranslatable('%s: comparison %s (line %d)' % (self.name, type(op).__name__, n.lineno))
        if isinstance(n, ast.Tuple):
            return [self.num(e, env) for e in n.elts]
        if isinstance(n, ast.Call) and not n.keywords:
            f = n.func
            if isinstance(f, ast.Attribute) and isinstance(f.value, ast.Name) and f.value.id == 'math' and f.attr in ('sqrt', 'fabs') and len(n.args) == 1:
                return '(%s %s %s)' % ('sqrt' if f.attr == 'sqrt' else 'abs', N, self.num(n.args[0], env))
            if isinstance(f, ast.Name) and f.id in ('max', 'min') and len(n.args) == 2:
                a, b = self.num(n.args[0], env), self.num(n.args[1], env)
                # Python: max(a, b) is b only if b > a; min(a, b) is b only if b < a
                return '(if ltb %s %s %s then %s else %s)' % ((N, a, b, b, a) if f.id == 'max' else (N, b, a, b, a))
            if isinstance(f, ast.Name) and f.id in self.mod.done:
                callee = self.mod.done[f.id]
                if callee.consts:
                    raise Untranslatable('%s: call of %s, which has float literals' % (self.name, f.id))
                if len(n.args) != len(callee.params):
                    raise Untranslatable('%s: call of %s with %d arguments' % (self.name, f.id, len(n.args)))
                flat = []
                for a, (_, k) in zip(n.args, callee.params):
                    v = self.E(a, env)
                    if k == 1:
                        if isinstance(v, list):
                            raise Untranslatable('%s: a sequence where %s takes a number' % (self.name, f.id))
                        flat.append(v)
                    else:
                        if not isinstance(v, list) or len(v) != k:
                            raise Untranslatable('%s: argument of %s is not a sequence of %d numbers' % (self.name, f.id, k))
                        flat += v
                return ('call', '(gen_%s N %s)' % (f.id, ' '.join(flat)), callee.arity)
        raise Untranslatable('%s: expression %s (line %d)' % (self.name, type(n).__name__, getattr(n, 'lineno', 0)))

    def num(self, n, env):
        v = self.E(n, env)
        if not isinstance(v, str):
            raise Untranslatable('%s: a number is expected (line %d)' % (self.name, getattr(n, 'lineno', 0)))
        return v

    boolean = num

    def ret(self, v):
        k = len(v) if isinstance(v, list) else 1
        if self.arity is None:
            self.arity = k
        elif self.arity != k:
            raise Untranslatable('%s returns %d and %d values' % (self.name, self.arity, k))
        return '(' + ', '.join(v) + ')' if isinstance(v, list) else v

    def block(self, stmts, env, lists):
        """Coq term of a statement list that must end with a return on every path"""
        if not stmts:
            raise Untranslatable('%s can end without a return' % self.name)
        s, rest = stmts[0], stmts[1:]
        if isinstance(s, ast.Expr) and isinstance(s.value, ast.Constant) and isinstance(s.value.value, str):
            return self.block(rest, env, lists)
        if isinstance(s, ast.Expr) and isinstance(s.value, ast.Call) and isinstance(s.value.func, ast.Attribute) and s.value.func.attr == 'append' \
                and isinstance(s.value.func.value, ast.Name) and s.value.func.value.id in lists and len(s.value.args) == 1:
            nm = s.value.func.value.id
            env = dict(env); env[nm] = env[nm] + [self.num(s.value.args[0], env)]
            return self.block(rest, env, lists)
        if isinstance(s, ast.Return):
            if rest:
                raise Untranslatable('%s: code after return' % self.name)
            v = self.E(s.value, env)
            if isinstance(v, tuple):
                if self.arity is None:
                    self.arity = v[2]
                elif self.arity != v[2]:
                    raise Untranslatable('%s returns %d and %d values' % (self.name, self.arity, v[2]))
                return v[1]
            return self.ret(v)
        if isinstance(s, ast.Assign) and len(s.targets) == 1:
            t = s.targets[0]
            if isinstance(t, ast.Name) and ((isinstance(s.value, ast.List) and not s.value.elts) or
                                            (isinstance(s.value, ast.Call) and isinstance(s.value.func, ast.Name) and s.value.func.id == 'list' and not s.value.args and not s.value.keywords)):
                env = dict(env); env[t.id] = []
                return self.block(rest, env, lists | {t.id})
            v = self.E(s.value, env)
            if isinstance(t, ast.Name):
                env = dict(env)
                if isinstance(v, tuple):                     # the result of a translated function
                    if v[2] == 1:
                        env[t.id] = V(t.id)
                        return 'let %s := %s in\n  %s' % (V(t.id), v[1], self.block(rest, env, lists - {t.id}))
                    names = ['%s_%d' % (V(t.id), i) for i in range(v[2])]
                    env[t.id] = names
                    return "let '(%s) := %s in\n  %s" % (', '.join(names), v[1], self.block(rest, env, lists - {t.id}))
                if isinstance(v, list):
                    env[t.id] = v
                    return self.block(rest, env, lists - {t.id})
                env[t.id] = V(t.id)
                return 'let %s := %s in\n  %s' % (V(t.id), v, self.block(rest, env, lists - {t.id}))
            if isinstance(t, ast.Tuple) and all(isinstance(e, ast.Name) for e in t.elts):
                names = [e.id for e in t.elts]
                env = dict(env)
                if isinstance(v, tuple):
                    if v[2] != len(names):
                        raise Untranslatable('%s: unpacking %d values into %d names (line %d)' % (self.name, v[2], len(names), s.lineno))
                    for nm in names:
                        env[nm] = V(nm)
                    return "let '(%s) := %s in\n  %s" % (', '.join(V(nm) for nm in names), v[1], self.block(rest, env, lists))
                if isinstance(v, list) and len(v) == len(names):
                    out = ''
                    for nm, e in zip(names, v):
                        out += 'let %s := %s in\n  ' % (V(nm) + "'", e)
                    for nm in names:
                        env[nm] = V(nm) + "'"
                    return out + self.block(rest, env, lists)
            raise Untranslatable('%s: assignment (line %d)' % (self.name, s.lineno))
        if isinstance(s, ast.AugAssign) and isinstance(s.target, ast.Name):
            op = {ast.Add: 'add', ast.Sub: 'sub', ast.Mult: 'mul', ast.Div: 'div'}.get(type(s.op))
            if op is None or s.target.id not in env or not isinstance(env[s.target.id], str):
                raise Untranslatable('%s: augmented assignment (line %d)' % (self.name, s.lineno))
            env = dict(env)
            term = '(%s N %s %s)' % (op, env[s.target.id], self.num(s.value, env))
            env[s.target.id] = V(s.target.id)
            return 'let %s := %s in\n  %s' % (V(s.target.id), term, self.block(rest, env, lists))
        if isinstance(s, ast.If):
            c = self.boolean(s.test, env)
            if s.orelse:
                if rest:
                    raise Untranslatable('%s: code after an if / else (line %d)' % (self.name, s.lineno))
                return '(if %s then\n  %s\n  else\n  %s)' % (c, self.block(s.body, env, lists), self.block(s.orelse, env, lists))
            if not isinstance(s.body[-1], ast.Return):
                raise Untranslatable('%s: a conditional that does not return (line %d)' % (self.name, s.lineno))
            return '(if %s then\n  %s\n  else\n  %s)' % (c, self.block(s.body, env, lists), self.block(rest, env, lists))
        raise Untranslatable('%s: statement %s (line %d)' % (self.name, type(s).__name__, s.lineno))

    def text(self):
        env = {}
        sig = []
        for nm, k in self.params:
            if k == 1:
                env[nm] = V(nm); sig.append(V(nm))
            else:
                env[nm] = ['%s_%d' % (V(nm), i) for i in range(k)]; sig += env[nm]
        body = self.block(self.node.body, env, set())
        if self.consts:
            return ('Definition gen_%s_consts : list string := [%s]%%string.\n' % (self.name, '; '.join('"%s"' % c for c in self.consts)) +
                    'Definition gen_%s {T : Type} (N : Num T) (%s : T) (%s : T) :=\n  %s.' % (self.name, ' '.join('c_%d' % k for k in range(len(self.consts))), ' '.join(sig), body))
        return 'Definition gen_%s {T : Type} (N : Num T) (%s : T) :=\n  %s.' % (self.name, ' '.join(sig), body)


class LoopFn(NumFn):
    """One accumulating loop over the legs of a polyline (proj_polyligne):

        <v = e>*                         initialisations (numbers; a float literal becomes a named constant, see `consts`)
        for i in range(len(A) - 1):      A a list parameter
            <body>                       assignments, A[i] / A[i + 1] on list parameters, `if c: continue`, tuple assignment from a translated
                                         function, `if c: <assignments>`, the loop index assigned to a variable
        return (v1, v2, ...)             names only

    becomes a body function on the tuple of the variables that survive an iteration (those initialised before the loop, then those the return
    reads), a Fixpoint that applies it `length A - 1` times with the index counting up from 0, and the function itself.  A variable that
    is only assigned inside the loop has an option type (None = still unbound: Python would raise UnboundLocalError on return) and cannot
    be read inside the loop.  Float literals are parameters of the generated function, in order of appearance; their `repr` is emitted as a
    list of strings that the proof file compares with the literals the model was written for."""

    def __init__(self, mod, name, shape):
        NumFn.__init__(self, mod, name, shape)
        self.lists = {a for a, k in self.params if k == 'L'}
        self.opt = []             # names only assigned inside the loop
        self.ivar = None
        self.natvars = set()

    def E(self, n, env):
        if isinstance(n, ast.Name) and (n.id in self.opt or n.id in self.lists or n.id == self.ivar or n.id in self.natvars):
            raise Untranslatable('%s: %s read as a number (line %d)' % (self.name, n.id, n.lineno))
        if isinstance(n, ast.Subscript) and isinstance(n.value, ast.Name) and n.value.id in self.lists and self.ivar is not None:
            ix = n.slice
            if isinstance(ix, ast.Name) and ix.id == self.ivar:
                return '(List.nth v_i %s (zero N))' % V(n.value.id)
            if isinstance(ix, ast.BinOp) and isinstance(ix.op, ast.Add) and isinstance(ix.left, ast.Name) and ix.left.id == self.ivar \
                    and isinstance(ix.right, ast.Constant) and ix.right.value == 1 and not isinstance(ix.right.value, (bool, float)):
                return '(List.nth (S v_i) %s (zero N))' % V(n.value.id)
            raise Untranslatable('%s: index of %s (line %d)' % (self.name, n.value.id, n.lineno))
        if isinstance(n, ast.List):
            return [self.num(e, env) for e in n.elts]
        return NumFn.E(self, n, env)

    def state(self, env):
        return '(' + ', '.join(env[v] for v in self.svars) + ')'

    def lblock(self, stmts, env):
        """Coq term (the state after the iteration) of the rest of a loop body"""
        if not stmts:
            return self.state(env)
        s, rest = stmts[0], stmts[1:]
        if isinstance(s, ast.Continue):
            return self.state(env)
        if isinstance(s, ast.Assign) and len(s.targets) == 1 and isinstance(s.targets[0], ast.Name):
            t = s.targets[0].id
            if t in self.lists or t == self.ivar or t in [a for a, _ in self.params]:
                raise Untranslatable('%s: assignment to %s (line %d)' % (self.name, t, s.lineno))
            env = dict(env)
            if isinstance(s.value, ast.Name) and s.value.id == self.ivar:
                if t not in self.natvars:
                    raise Untranslatable('%s: the loop index stored in %s (line %d)' % (self.name, t, s.lineno))
                env[t] = '(Some v_i)' if t in self.opt else 'v_i'
                return self.lblock(rest, env)
            if t in self.natvars:
                raise Untranslatable('%s: %s holds the loop index elsewhere (line %d)' % (self.name, t, s.lineno))
            v = self.num(s.value, env)
            if t in self.opt:
                env[t] = '(Some %s)' % v
                return self.lblock(rest, env)
            env[t] = V(t)
            return 'let %s := %s in\n    %s' % (V(t), v, self.lblock(rest, env))
        if isinstance(s, ast.Assign) and len(s.targets) == 1 and isinstance(s.targets[0], ast.Tuple) and all(isinstance(e, ast.Name) for e in s.targets[0].elts):
            names = [e.id for e in s.targets[0].elts]
            if any(nm in self.svars or nm in self.lists or nm == self.ivar for nm in names):
                raise Untranslatable('%s: tuple assignment to a loop-carried name (line %d)' % (self.name, s.lineno))
            v = self.E(s.value, env)
            if not isinstance(v, tuple) or v[2] != len(names):
                raise Untranslatable('%s: tuple assignment (line %d)' % (self.name, s.lineno))
            env = dict(env)
            for nm in names:
                env[nm] = V(nm)
            return "let '(%s) := %s in\n    %s" % (', '.join(V(nm) for nm in names), v[1], self.lblock(rest, env))
        if isinstance(s, ast.If) and not s.orelse:
            c = self.boolean(s.test, env)
            return '(if %s then\n    %s\n    else\n    %s)' % (c, self.lblock(list(s.body) + ([] if isinstance(s.body[-1], ast.Continue) else rest), env), self.lblock(rest, env))
        raise Untranslatable('%s: statement %s in the loop (line %d)' % (self.name, type(s).__name__, s.lineno))

    def text(self):
        body = [s for s in self.node.body if not (isinstance(s, ast.Expr) and isinstance(s.value, ast.Constant) and isinstance(s.value.value, str))]
        loops = [k for k, s in enumerate(body) if isinstance(s, ast.For)]
        if len(loops) != 1 or loops[0] != len(body) - 2 or not isinstance(body[-1], ast.Return):
            raise Untranslatable('%s: not <initialisations> <one loop> <return>' % self.name)
        loop, ret = body[-2], body[-1]
        env = {}; sig = []
        for nm, k in self.params:
            if k == 'L':
                sig.append('(%s : list T)' % V(nm))
            elif k == 1:
                env[nm] = V(nm); sig.append('(%s : T)' % V(nm))
            else:
                raise Untranslatable('%s: parameter shape' % self.name)
        inits = []
        for s in body[:-2]:
            if not (isinstance(s, ast.Assign) and len(s.targets) == 1 and isinstance(s.targets[0], ast.Name)) or s.targets[0].id in env or s.targets[0].id in self.lists:
                raise Untranslatable('%s: initialisation (line %d)' % (self.name, s.lineno))
            inits.append((s.targets[0].id, self.num(s.value, env)))
            env[s.targets[0].id] = V(s.targets[0].id)
        # the loop header: for i in range(len(A) - 1), no else
        it = loop.iter
        ok = isinstance(loop.target, ast.Name) and not loop.orelse and isinstance(it, ast.Call) and isinstance(it.func, ast.Name) and it.func.id == 'range' \
            and len(it.args) == 1 and not it.keywords and isinstance(it.args[0], ast.BinOp) and isinstance(it.args[0].op, ast.Sub) \
            and isinstance(it.args[0].right, ast.Constant) and it.args[0].right.value == 1 and not isinstance(it.args[0].right.value, (bool, float)) \
            and isinstance(it.args[0].left, ast.Call) and isinstance(it.args[0].left.func, ast.Name) and it.args[0].left.func.id == 'len' \
            and len(it.args[0].left.args) == 1 and isinstance(it.args[0].left.args[0], ast.Name) and it.args[0].left.args[0].id in self.lists
        if not ok:
            raise Untranslatable('%s: loop header (line %d)' % (self.name, loop.lineno))
        over = it.args[0].left.args[0].id
        self.ivar = loop.target.id
        if self.ivar in env:
            raise Untranslatable('%s: the loop index shadows %s' % (self.name, self.ivar))
        # what the return reads
        if not (isinstance(ret.value, ast.Tuple) and all(isinstance(e, ast.Name) for e in ret.value.elts)):
            raise Untranslatable('%s: the return is not a tuple of names' % self.name)
        rnames = [e.id for e in ret.value.elts]
        initnames = [nm for nm, _ in inits]
        self.opt = [nm for nm in rnames if nm not in initnames]
        if len(set(rnames)) != len(rnames) or any(nm in [a for a, _ in self.params] or nm == self.ivar for nm in rnames):
            raise Untranslatable('%s: returned names' % self.name)
        self.svars = initnames + self.opt
        # a name of the return that is assigned the loop index somewhere in the loop holds a nat
        for n in ast.walk(loop):
            if isinstance(n, ast.Assign) and len(n.targets) == 1 and isinstance(n.targets[0], ast.Name) and isinstance(n.value, ast.Name) and n.value.id == self.ivar:
                self.natvars.add(n.targets[0].id)
        if any(nm in initnames for nm in self.natvars):
            raise Untranslatable('%s: an initialised name holds the loop index' % self.name)
        lenv = dict(env)
        for nm in self.opt:
            lenv[nm] = V(nm)
        bodyt = self.lblock(list(loop.body), lenv)
        consts = ' '.join('c_%d' % k for k in range(len(self.consts)))
        csig = ('(%s : T) ' % consts) if self.consts else ''
        sigs = ' '.join(sig)
        args = ' '.join(V(nm) for nm, _ in self.params)
        pat = ', '.join(V(nm) for nm in self.svars)
        def ty(nm):
            return ('option nat' if nm in self.natvars else 'option T') if nm in self.opt else 'T'
        sty = ' * '.join(ty(nm) for nm in self.svars)
        out = []
        out.append('Definition gen_%s_consts : list string := [%s]%%string.' % (self.name, '; '.join('"%s"' % c for c in self.consts)))
        out.append("Definition gen_%s_body {T : Type} (N : Num T) %s%s (v_i : nat) (st : %s) : %s :=\n  let '(%s) := st in\n    %s."
                   % (self.name, csig, sigs, sty, sty, pat, bodyt))
        out.append('Fixpoint gen_%s_loop {T : Type} (N : Num T) %s%s (k : nat) (v_i : nat) (st : %s) : %s :=\n  match k with\n  | O => st\n  | S k => gen_%s_loop N %s %s k (S v_i) (gen_%s_body N %s %s v_i st)\n  end.'
                   % (self.name, csig, sigs, sty, sty, self.name, consts, args, self.name, consts, args))
        init = '(' + ', '.join([t for _, t in inits] + ['None'] * len(self.opt)) + ')'
        out.append("Definition gen_%s {T : Type} (N : Num T) %s%s :=\n  let '(%s) := gen_%s_loop N %s %s (List.length %s - 1) 0 %s in\n  (%s)."
                   % (self.name, csig, sigs, pat, self.name, consts, args, V(over), init, ', '.join(V(nm) for nm in rnames)))
        self.arity = len(rnames)
        return '\n'.join(out)


class NumModule:
    def __init__(self, source):
        self.tree = ast.parse(source)
        self.done = {}

    def translate(self, specs):
        out = ['(* GENERATED on every run by harness/py2coq_num.py from tracklib/util/geometry.py - do not edit *)',
               'From Coq Require Import Bool List String.', 'Import ListNotations.', 'From TL Require Import Model.Num.', '']
        for name, shape in specs:
            f = (LoopFn if 'L' in shape else NumFn)(self, name, shape)
            out.append(f.text())
            self.done[name] = f
        return '\n'.join(out) + '\n'


SPECS = [('cartesienne', [4]), ('projection_droite', [3, 1, 1]), ('proj_segment', [4, 1, 1]), ('distance_to_segment', [1] * 6), ('proj_polyligne', ['L', 'L', 1, 1]), ('triangle_area', [1] * 6)]


def translate_geometry(path):
    return NumModule(open(path).read()).translate(SPECS)


if __name__ == '__main__':
    import sys
    print(translate_geometry(sys.argv[1]))
