"""Harness core: ties the Coq models in /verif/coq to the implementation in /repo and decides a verdict.

A property module  props/Cnn.py  provides

  PROP          'Cnn'
  THEOREM_FILE  'Props/Cnn.v'   (contains only Theorem ... exact ... Qed. / Print Assumptions / Example)
  STREAMS       list of Stream objects (one model-vs-code correspondence each)
  NOTES         list of strings copied into the evidence "assumptions"

A Stream provides (all cases and observations are JSON-able)

  name, rule                 text
  imports, check_def         Coq text; check_def defines   ok : CASE_TYPE -> bool
  case_type                  Coq type of one case term
  generate(rng, n, tier)     -> list of cases
  run_impl(case)             -> observation of tracklib (exceptions mapped to {'exc': name} by the core)
  coq_case(case, obs)        -> Coq term of type case_type, or None when the model does not cover the case
  oracle(case, obs)          -> None, or a string saying how the *implementation output* breaks the property
  nontrivial(case, obs)      -> bool
  klass(case, obs)           -> label for the input distribution
  finding_key(case, obs, why)-> key of the known-finding class the failure belongs to (or None)
  shrink(case)               -> iterable of smaller cases (optional)
  budget                     {'quick': n, 'thorough': n}

Verdict (DESIGN.md section 5):
  * every oracle failure on the implementation that is not in an open known-finding class  -> VIOLATION (concrete replay)
  * model/implementation disagreement, theorem file or build failure                       -> search with the oracle on a
    larger stream; concrete failure -> VIOLATION with it; none -> VIOLATION ... no-failing-input-found
  * otherwise exit 0 (KNOWN-FINDING lines for the open findings that still reproduce)
"""
import os, sys, json, re, time, random, hashlib, subprocess, fractions, importlib, tempfile, shutil, io, contextlib, math, fcntl, traceback

VERIF = os.environ.get('VERIF_DIR', '/verif')
COQ_DIR = os.path.join(VERIF, 'coq')
TL_ROOT = os.environ.get('TL_ROOT', '/repo')
OUT = os.environ.get('VERIF_OUT', VERIF)          # evidence / replays go elsewhere when a scratch copy of the repository is checked (tools/seeded.py --scratch)
DEFAULT_SHARD = int(os.environ.get('VERIF_SHARD', '300'))
JOBS = int(os.environ.get('VERIF_JOBS', '14'))
GUARD = 'TRACKLIB_VERIF'

# ----------------------------------------------------------------------------- Coq literals

def q(v):
    """exact Coq Q literal of a Python number (every finite binary64 is a rational)"""
    if isinstance(v, bool):
        v = int(v)
    f = fractions.Fraction(v)
    return '(%d # %d)' % (f.numerator, f.denominator)


def isnan(v):
    return isinstance(v, float) and v != v


def optq(v):
    return 'None' if (v is None or isnan(v)) else '(Some %s)' % q(v)


def zlit(v):
    return '(%d)%%Z' % int(v)


def fl(x):
    """bit-exact PrimFloat literal"""
    x = float(x)
    if x != x:
        return 'nan'
    if x == math.inf:
        return 'infinity'
    if x == -math.inf:
        return 'neg_infinity'
    if x == 0:
        return '(-0)%float' if math.copysign(1, x) < 0 else '(0)%float'
    return '(%s)%%float' % x.hex() if x > 0 else '(-%s)%%float' % (-x).hex()


def coq_list(items):
    return '[' + '; '.join(items) + ']'


def coq_str(s):
    return '"' + s.replace('"', '""') + '"'


def coq_bool(b):
    return 'true' if b else 'false'


class Stream:
    shrink = None
    search = None

    def __init__(self, **kw):
        self.__dict__.update(kw)
        for k in ('klass', 'finding_key'):
            if k not in kw:
                setattr(self, k, lambda *a, **k: None)
        if 'nontrivial' not in kw:
            self.nontrivial = lambda c, o: True
        if 'oracle' not in kw:
            self.oracle = lambda c, o: None


# ----------------------------------------------------------------------------- Coq side

def sh(cmd, timeout=3000, cwd=None):
    p = subprocess.run(cmd, shell=True, capture_output=True, text=True, timeout=timeout, cwd=cwd)
    return p.returncode, p.stdout + p.stderr


def ensure_built():
    """(re)build the Coq development; incremental; serialised by a lock so parallel checks do not race"""
    os.makedirs(os.path.join(VERIF, 'work'), exist_ok=True)
    with open(os.path.join(VERIF, 'work', '.build.lock'), 'w') as lk:
        fcntl.flock(lk, fcntl.LOCK_EX)
        if not os.path.exists(os.path.join(COQ_DIR, 'Makefile')):
            rc, out = sh('coq_makefile -f _CoqProject -o Makefile', cwd=COQ_DIR)
            if rc:
                return False, out[-2000:]
        rc, out = sh('timeout 3000 make -j%d 2>&1 | tail -n 40' % JOBS, cwd=COQ_DIR, timeout=3100)
        ok = rc == 0 and 'Error' not in out
        return ok, out[-3000:]


HYGIENE_RE = r'Admitted|\badmit\b|^\s*(Axiom|Axioms|Parameter|Parameters|Conjecture|Hypothesis|Variable)\b|Unset Guard|bypass_check|type-in-type|Admit Obligations|impredicative-set|Unset Universe Checking|Unset Positivity'


def hygiene():
    """no Admitted / axioms / disabled checks anywhere in the development (Variable/Hypothesis allowed inside Sections only)"""
    bad = []
    for root, _, files in os.walk(COQ_DIR):
        for fn in files:
            if not fn.endswith('.v') and fn != '_CoqProject':
                continue
            depth = 0
            path = os.path.join(root, fn)
            for n, line in enumerate(open(path, errors='replace'), 1):
                code = re.sub(r'\(\*.*?\*\)', '', line)
                if re.match(r'\s*Section\b', code):
                    depth += 1
                if re.match(r'\s*End\b', code) and depth > 0:
                    depth -= 1
                m = re.search(HYGIENE_RE, code)
                if m:
                    word = m.group(0).strip()
                    if word in ('Variable', 'Hypothesis') and depth > 0:
                        continue
                    bad.append('%s:%d: %s' % (os.path.relpath(path, VERIF), n, line.strip()[:120]))
    return bad


def check_theorems(theorem_file):
    """re-check the property theorem file on this run"""
    path = os.path.join(COQ_DIR, theorem_file)
    src = open(path).read()
    names = re.findall(r'^\s*(?:Theorem|Corollary)\s+([A-Za-z0-9_\']+)', src, re.M)
    examples = re.findall(r'^\s*(?:Example)\s+([A-Za-z0-9_\']+)', src, re.M)
    rc, out = sh('timeout 900 coqc -Q . TL %s' % theorem_file, cwd=COQ_DIR, timeout=1000)
    ok = rc == 0
    # Print Assumptions output: either "Closed under the global context" or "Axioms:" followed by lines
    axioms = sorted(set(re.findall(r'^([A-Za-z_][A-Za-z0-9_\.\']*)\s*:', out, re.M)) - {'Axioms'})
    closed = out.count('Closed under the global context')
    return {'file': theorem_file, 'theorems': names, 'examples': examples, 'ok': ok, 'axioms': axioms, 'closed': closed,
            'n_print_assumptions': len(re.findall(r'Print Assumptions', src)), 'tail': out[-1500:] if not ok else ''}


def run_coq_cases(prop, stream, terms, workdir):
    """write sharded cases files, compile them in parallel, return (set of disagreeing indices, errors)"""
    if getattr(stream, 'mode', None) == 'lemma':
        return run_coq_lemmas(prop, stream, terms, workdir)
    files = []
    SHARD = getattr(stream, 'shard', None) or max(25, min(DEFAULT_SHARD, -(-len(terms) // JOBS)))
    for s in range(0, len(terms), SHARD):
        name = 'cases_%s_%s_%d' % (prop, stream.name, s // SHARD)
        path = os.path.join(workdir, name + '.v')
        with open(path, 'w') as f:
            f.write(stream.imports + '\n')
            f.write(stream.check_def + '\n')
            f.write('Definition cases__ : list (%s) := [\n' % stream.case_type)
            f.write(';\n'.join('  ' + t for t in terms[s:s + SHARD]) + '].\n')
            f.write('Fixpoint bad__ (i : nat) (l : list (%s)) : list nat := match l with nil => nil | c :: r => if ok c then bad__ (S i) r else i :: bad__ (S i) r end.\n' % stream.case_type)
            f.write('Eval vm_compute in (List.length cases__, bad__ 0%nat cases__).\n')
        files.append((s, path))
    bad = set(); errors = []
    pending = list(files); running = []
    while pending or running:
        while pending and len(running) < JOBS:
            s, p = pending.pop(0)
            running.append((s, p, subprocess.Popen('ulimit -s unlimited 2>/dev/null; exec timeout 900 coqc -Q %s TL %s' % (COQ_DIR, p), shell=True,
                                                  stdout=subprocess.PIPE, stderr=subprocess.STDOUT, text=True, cwd=workdir)))
        s, p, pr = running.pop(0)
        out, _ = pr.communicate()
        m = re.search(r'=\s*\((\d+)(?:%nat)?,\s*\[(.*?)\]\)', out, re.S)
        n_here = min(SHARD, len(terms) - s)
        if pr.returncode != 0 or not m or int(m.group(1)) != n_here:
            errors.append({'shard': s, 'output': out[-600:]})
            continue
        for tok in re.findall(r'\d+', m.group(2)):
            bad.add(s + int(tok))
    return bad, errors


def run_coq_lemmas(prop, stream, terms, workdir):
    """lemma mode: every case is a Coq script (statements about the model at that input, closed by Qed); one coqc process per case,
    a case whose script does not compile is a disagreement between the model and the observed behaviour"""
    files = []
    for i, t in enumerate(terms):
        path = os.path.join(workdir, 'lemma_%s_%s_%d.v' % (prop, stream.name, i))
        with open(path, 'w') as f:
            f.write(stream.imports + '\n' + stream.check_def + '\n' + t + '\n')
        files.append((i, path))
    bad = set(); errors = []
    pending = list(files); running = []
    while pending or running:
        while pending and len(running) < JOBS:
            i, p = pending.pop(0)
            running.append((i, p, subprocess.Popen('exec timeout %d coqc -Q %s TL %s' % (getattr(stream, 'lemma_timeout', 300), COQ_DIR, p), shell=True,
                                                  stdout=subprocess.PIPE, stderr=subprocess.STDOUT, text=True, cwd=workdir)))
        i, p, pr = running.pop(0)
        out, _ = pr.communicate()
        if pr.returncode != 0:
            bad.add(i)
            stream.lemma_output = getattr(stream, 'lemma_output', {}); stream.lemma_output[i] = out[-500:]
    return bad, errors


# ----------------------------------------------------------------------------- implementation side

def quiet_call(fn, *a):
    buf = io.StringIO()
    try:
        with contextlib.redirect_stdout(buf), contextlib.redirect_stderr(buf):
            return fn(*a)
    except SystemExit as e:
        return {'exc': 'SystemExit'}
    except RecursionError:
        return {'exc': 'RecursionError'}
    except Exception as e:
        return {'exc': type(e).__name__, 'msg': str(e)[:200]}


def load_findings(prop):
    p = os.path.join(VERIF, 'known_findings.json')
    if not os.path.exists(p):
        return []
    return [f for f in json.load(open(p)).get('findings', []) if f['property'] == prop]


def case_hash(c):
    return hashlib.sha1(json.dumps(c, sort_keys=True, default=str).encode()).hexdigest()


def safe_oracle(st, c, o):
    try:
        return st.oracle(c, o)
    except Exception as e:
        return 'oracle could not interpret the output: %s: %s' % (type(e).__name__, e)


def safe(fn, default, *a):
    try:
        return fn(*a)
    except Exception:
        return default


def shrink_case(stream, case, fails):
    """greedy shrinking while the failure persists"""
    if not stream.shrink:
        return case
    budget = 400
    improved = True
    while improved and budget > 0:
        improved = False
        try:
            cands = list(stream.shrink(case))
        except Exception:
            break                                 # a shrinker that cannot handle the case: keep the case as it is
        for cand in cands:
            budget -= 1
            if budget <= 0:
                break
            try:
                if fails(cand):
                    case = cand; improved = True
                    break
            except Exception:
                continue
    return case


def main(prop, tier='quick', seed=None, replay=None):
    t0 = time.time()
    seed = int(seed if seed is not None else os.environ.get('VERIF_SEED', 1))
    os.environ.setdefault('MPLBACKEND', 'Agg')
    os.environ[GUARD] = '1'
    os.environ.setdefault('PYTHONHASHSEED', '0')
    if TL_ROOT not in sys.path:
        sys.path.insert(0, TL_ROOT)
    import warnings
    warnings.filterwarnings('ignore')
    sys.path.insert(0, os.path.join(VERIF, 'harness'))
    mod = importlib.import_module('props.' + prop)
    import tracklib
    assert os.path.realpath(tracklib.__file__).startswith(os.path.realpath(TL_ROOT)), 'tracklib not imported from ' + TL_ROOT

    built, build_out = ensure_built()
    hyg = hygiene()
    thm = check_theorems(mod.THEOREM_FILE) if built else {'file': mod.THEOREM_FILE, 'theorems': [], 'examples': [], 'ok': False, 'axioms': [], 'closed': 0, 'n_print_assumptions': 0, 'tail': build_out}
    # properties with a translator: the model generated from /repo's CURRENT source, and the proof that it is the hand-written model, re-checked on this run
    genmodel = None
    if built and hasattr(mod, 'generated_model'):
        try:
            genmodel = mod.generated_model()
        except Exception as e:
            genmodel = {'ok': False, 'what': 'translator crashed', 'tail': '%s: %s' % (type(e).__name__, e)}
        if not genmodel['ok'] and thm['ok']:
            thm['ok'] = False
            thm['tail'] = 'model generated from the source (%s): %s' % (genmodel['what'], genmodel['tail'][-600:])
    # thorough tier: the independent checker re-checks the compiled theorem file and everything it depends on (runs beside the streams)
    chk_proc = None; chk = None
    if built and tier == 'thorough' and not replay:
        chk_proc = subprocess.Popen('exec timeout 3000 coqchk -o -silent -Q . TL TL.%s' % mod.THEOREM_FILE[:-2].replace('/', '.'), shell=True,
                                    stdout=subprocess.PIPE, stderr=subprocess.STDOUT, text=True, cwd=COQ_DIR)
    findings = load_findings(prop)
    open_keys = {f['key']: f for f in findings if f.get('status') == 'open'}

    streams_ev = []; new_fail = []; known_hit = {}; disagreements = []; coq_errors = []
    tot_eval = 0; tot_distinct = 0; samples = []
    replay_doc = json.load(open(replay)) if replay else None
    work = tempfile.mkdtemp(prefix='tlverif_%s_' % prop)
    try:
        for si, st in enumerate(mod.STREAMS):
            if replay_doc is not None:
                cases = [c['case'] for c in replay_doc.get('cases', []) if c.get('stream') == st.name]
                if not cases:
                    continue
            else:
                rng = random.Random('%s/%s/%d' % (prop, st.name, seed))
                corpus = []
                cdir = os.path.join(VERIF, 'corpus', prop)
                if os.path.isdir(cdir):
                    for fn in sorted(os.listdir(cdir)):
                        d = json.load(open(os.path.join(cdir, fn)))
                        corpus += [c['case'] for c in d.get('cases', []) if c.get('stream') == st.name]
                cases = corpus + st.generate(rng, st.budget[tier], tier)
            t_s = time.time()
            observed = [quiet_call(st.run_impl, c) for c in cases]
            t_impl = time.time() - t_s
            terms = []; idx = []
            malformed = []
            for i, (c, o) in enumerate(zip(cases, observed)):
                try:
                    t = st.coq_case(c, o)
                except Exception:
                    # the observation cannot even be written as a term of the model (a NaN, an infinity, a missing or ill-typed value where the
                    # model has a number): counted as a disagreement of that case instead of crashing the run; the oracle decides whether it is a failure
                    t = None; malformed.append(i)
                if t is not None:
                    terms.append(t); idx.append(i)
            t_s = time.time()
            bad, errs = run_coq_cases(prop, st, terms, work) if terms else (set(), [])
            t_coq = time.time() - t_s
            lemma_out = {idx[b]: v for b, v in getattr(st, 'lemma_output', {}).items()}
            bad = sorted(set(idx[b] for b in bad) | set(malformed))
            coq_errors += [dict(e, stream=st.name) for e in errs]
            ofail = []
            for i, (c, o) in enumerate(zip(cases, observed)):
                try:
                    why = st.oracle(c, o)
                except Exception as e:
                    why = 'oracle could not interpret the output: %s: %s' % (type(e).__name__, e)
                if why:
                    ofail.append((i, why))
            for i, why in ofail:
                key = safe(st.finding_key, None, cases[i], observed[i], why)
                if key is not None and key in open_keys:
                    known_hit.setdefault(key, []).append({'stream': st.name, 'case': cases[i], 'observed': observed[i], 'why': why})
                else:
                    new_fail.append({'stream': st.name, 'si': si, 'case': cases[i], 'observed': observed[i], 'why': why, 'in_disagreement': i in bad})
            for i in bad:
                disagreements.append({'stream': st.name, 'si': si, 'case': cases[i], 'observed': observed[i], 'coq_output': lemma_out.get(i)})
            nt = {case_hash(c) for c, o in zip(cases, observed) if safe(st.nontrivial, False, c, o)}
            dist = {}
            for c, o in zip(cases, observed):
                k = safe(st.klass, 'unclassified', c, o)
                if isinstance(o, dict) and 'exc' in o:
                    k = 'raises:' + o['exc']
                dist[str(k)] = dist.get(str(k), 0) + 1
            tot_eval += len(cases); tot_distinct += len(nt)
            samples += [{'stream': st.name, 'case': cases[i], 'observed': observed[i]} for i in range(min(2, len(cases)))]
            streams_ev.append({'stream': st.name, 'rule': st.rule, 'cases': len(cases), 'model_evaluated': len(terms), 'distinct_nontrivial': len(nt),
                               'model_disagreements': len(bad), 'oracle_failures': len(ofail), 'impl_s': round(t_impl, 1), 'coq_s': round(t_coq, 1), 'distribution': dist})

        # ------------------------------------------------------------------ verdict
        verdict = None; replay_cases = []; reason = None
        if chk_proc is not None:
            cout, _ = chk_proc.communicate()
            m = re.search(r'\* Axioms:(.*?)\n\s*\n\* Constants', cout, re.S)
            chk = {'ok': chk_proc.returncode == 0 and 'type-in-type: <none>' in cout and 'unsafe (co)fixpoints: <none>' in cout and 'positivity is assumed: <none>' in cout,
                   'axioms': [l.strip() for l in (m.group(1) if m else '').split('\n') if l.strip() and l.strip() != '<none>'], 'tail': cout[-600:]}
            if chk_proc.returncode == 124:
                # the independent re-check did not finish within its time limit (libraries such as Coquelicot take hours): that is not a failed check -
                # the kernel of coqc has accepted every file of the build above; recorded as such in the evidence
                chk = {'ok': 'timed out', 'axioms': [], 'tail': 'coqchk did not finish within 3000 s'}
            elif not chk['ok']:
                thm['ok'] = False; thm['tail'] = 'coqchk: ' + chk['tail']
        proof_ok = built and thm['ok'] and not hyg
        if new_fail:
            new_fail.sort(key=lambda f: (not f['in_disagreement'], len(json.dumps(f['case'], default=str))))
            f0 = new_fail[0]; st = mod.STREAMS[f0['si']]
            def fails(c, st=st):
                o = quiet_call(st.run_impl, c)
                w = safe_oracle(st, c, o)
                return bool(w) and not (safe(st.finding_key, None, c, o, w) in open_keys)
            small = shrink_case(st, f0['case'], fails)
            o = quiet_call(st.run_impl, small)
            verdict = 'concrete'; reason = safe_oracle(st, small, o) or f0['why']
            replay_cases = [{'stream': st.name, 'case': small, 'observed': o, 'why': reason}]
        elif disagreements or coq_errors or not proof_ok:
            # broken correspondence / proof: look harder for a concrete failing input with the oracle
            found = None
            for si, st in enumerate(mod.STREAMS):
                if replay_doc is not None:
                    break
                rng = random.Random('%s/%s/%d/search' % (prop, st.name, seed))
                gen = st.search or st.generate
                more = gen(rng, st.budget[tier] * (4 if tier == 'quick' else 2), tier)
                for c in more:
                    o = quiet_call(st.run_impl, c)
                    try:
                        w = st.oracle(c, o)
                    except Exception as e:
                        w = 'oracle could not interpret the output: %s' % e
                    if w and not (safe(st.finding_key, None, c, o, w) in open_keys):
                        found = (st, c, o, w); break
                if found:
                    break
            if found:
                st, c, o, w = found
                def fails(c2, st=st):
                    o2 = quiet_call(st.run_impl, c2); w2 = safe_oracle(st, c2, o2)
                    return bool(w2) and not (safe(st.finding_key, None, c2, o2, w2) in open_keys)
                c = shrink_case(st, c, fails); o = quiet_call(st.run_impl, c)
                verdict = 'concrete'; reason = safe_oracle(st, c, o) or w
                replay_cases = [{'stream': st.name, 'case': c, 'observed': o, 'why': reason}]
            else:
                verdict = 'no-failing-input-found'
                if disagreements:
                    d0 = disagreements[0]
                    reason = 'model/implementation correspondence of stream %s (Coq model %s) no longer checks: the model computes something else on the stored input' % (d0['stream'], mod.THEOREM_FILE)
                    replay_cases = [{'stream': d['stream'], 'case': d['case'], 'observed': d['observed'], 'why': 'model disagrees', 'coq_output': d.get('coq_output')} for d in disagreements[:3]]
                elif coq_errors:
                    reason = 'the correspondence cases could not be evaluated by coqc: ' + coq_errors[0]['output'][-300:]
                elif hyg:
                    reason = 'hygiene: ' + '; '.join(hyg[:3])
                elif not built:
                    reason = 'the Coq development does not build: ' + build_out[-400:]
                else:
                    reason = 'theorem file %s no longer checks: %s' % (mod.THEOREM_FILE, thm['tail'][-400:])
    finally:
        shutil.rmtree(work, ignore_errors=True)

    obligations = max(1, len(thm['theorems']))
    discharged = len(thm['theorems']) if proof_ok else 0
    tb = ['Coq 8.16.1 kernel and its VM (vm_compute); no native_compute',
          'Print Assumptions under the %d theorems of %s: %s' % (len(thm['theorems']), mod.THEOREM_FILE,
                                                                 ('axioms ' + ', '.join(thm['axioms'])) if thm['axioms'] else 'Closed under the global context (all)'),
          'hand-written Gallina model (coq/Model/*.v) tied to /repo by the correspondence streams of this run (differential testing, not proof)',
          'Python harness: generators, implementation runner, Coq case printer, independent oracle (harness/props/%s.py, harness/core.py)' % prop,
          'CPython, numpy and libm as the semantics of the implementation; binary64 rounding is modelled (exact/float instances), not verified']
    if genmodel is not None:
        tb.append('translator harness/py2coq.py (Python ast -> Gallina, fail-closed, integers only): %s; %s' % (genmodel.get('scope', ''), 'generated model proved equal to the hand-written one on this run (%s)' % genmodel.get('proof', '') if genmodel['ok'] else 'NOT CHECKED on this run: ' + genmodel['what']))
    ev = {'property_id': prop, 'tier': tier, 'seed': seed, 'level': 'proof',
          'coverage': {'obligations': obligations, 'discharged': discharged,
                       'checker_cmd': 'make -C /verif/coq && coqc -Q /verif/coq TL /verif/coq/%s' % mod.THEOREM_FILE,
                       'trusted_base': tb, 'theorems': thm['theorems'], 'nonvacuity_examples': thm['examples'],
                       'print_assumptions_commands': thm['n_print_assumptions'], 'axioms_reported': thm['axioms'],
                       'evaluations': tot_eval, 'distinct_nontrivial': tot_distinct,
                       'traces_validated_against_impl': sum(s['model_evaluated'] for s in streams_ev),
                       'rule': ' || '.join('%s: %s' % (s['stream'], s['rule']) for s in streams_ev),
                       'samples': samples[:6], 'streams': streams_ev,
                       'model_disagreements': len(disagreements), 'oracle_failures_outside_known_findings': len(new_fail),
                       'known_finding_hits': {k: len(v) for k, v in known_hit.items()},
                       'hygiene_hits': hyg[:5], 'exhaustive': False, 'generated_model': genmodel if genmodel is not None else 'none for this property (hand-written model + correspondence only)',
                       'coqchk': ({'ok': chk['ok'], 'axioms_of_all_loaded_libraries': chk['axioms']} if chk else 'not run in this tier (thorough only)')},
          'assumptions': list(getattr(mod, 'NOTES', [])) + ['the correspondence is sampling: it never stands in for a theorem'],
          'wall_s': round(time.time() - t0, 2), 'violations': 0 if verdict is None else 1}
    os.makedirs(os.path.join(OUT, 'evidence'), exist_ok=True)
    if replay_doc is None:
        json.dump(ev, open(os.path.join(OUT, 'evidence', prop + '.json'), 'w'), indent=1, default=str)
    for k, f in open_keys.items():
        if k in known_hit:
            print('KNOWN-FINDING: property=%s %s [%s; %d inputs of this run]' % (prop, f['what'], k, len(known_hit[k])))
    print('%s %s: %d theorems %s, %d cases (%d distinct non-trivial), %d model disagreements, %d oracle failures, %.1fs' % (
        prop, tier, len(thm['theorems']), 'checked' if proof_ok else 'NOT CHECKED', tot_eval, tot_distinct, len(disagreements), len(new_fail), time.time() - t0))
    rdir = os.path.join(OUT, 'replays'); os.makedirs(rdir, exist_ok=True)
    rp = os.path.join(rdir, '%s-%s-%d.json' % (prop, tier, seed))
    if not verdict and replay_doc is None and os.path.exists(rp):
        os.remove(rp)
    if verdict:
        json.dump({'property': prop, 'seed': seed, 'tier': tier, 'kind': verdict, 'reason': reason, 'cases': replay_cases,
                   'theorem_file': mod.THEOREM_FILE, 'proof_ok': proof_ok, 'coq_errors': coq_errors[:2],
                   'replay_cmd': './check %s --replay %s' % (prop, rp)}, open(rp, 'w'), indent=1, default=str)
        print('VIOLATION property=%s replay=%s%s' % (prop, rp, '' if verdict == 'concrete' else ' no-failing-input-found'))
        return 1
    return 0


if __name__ == '__main__':
    import argparse
    ap = argparse.ArgumentParser()
    ap.add_argument('prop')
    ap.add_argument('--tier', default=os.environ.get('VERIF_TIER', 'quick'))
    ap.add_argument('--seed', type=int)
    ap.add_argument('--replay')
    a = ap.parse_args()
    try:
        sys.exit(main(a.prop, a.tier, a.seed, a.replay))
    except SystemExit:
        raise
    except BaseException:
        traceback.print_exc()
        sys.exit(2)
